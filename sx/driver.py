"""Parallel driver: explores every configuration of a harness over all paths, replays
counterexamples on the unshimmed code, matches known findings, writes evidence.

Exit codes (DESIGN §1.5): 0 held / 1 replayed VIOLATION / 2 harness error / 3 inconclusive.
"""
import importlib
import json
import multiprocessing as mp
import os
import queue as _q
import signal
import sys
import time
import traceback

import z3

from . import engine as eng
from . import shims
from .ctx import SymCtx, ConcCtx, PathEnd, ReplayMismatch, Violation, TapeEnd
from .engine import Engine, HarnessError, frac_of

VERIF = os.path.dirname(os.path.dirname(os.path.abspath(__file__)))
EVID = os.environ.get("VERIF_EVID_DIR") or (os.path.join(VERIF, "evidence") if os.path.realpath(os.environ.get("PYXAB_SRC", "/repo")) == "/repo" else os.path.join(VERIF, "evidence", "_other_source_tree"))
NPROC = int(os.environ.get("VERIF_NPROC", "0")) or min(16, os.cpu_count() or 4)


# ----------------------------------------------------------------------------- concrete replay
class _Hang(BaseException):
    pass


def replay_concrete(hmod, cfg, inputs, wall_s=60, complete=False):
    """run the harness on the unshimmed code with concrete inputs; returns dict"""
    was = dict(shims._installed)
    shims.uninstall()
    conc = ConcCtx(inputs, complete=complete)
    shims.set_ctx(conc)
    shims.rng_fresh()
    shims.restore_state()
    res = {"status": "ok", "failures": [], "observations": None}

    def _alarm(signum, frame):
        raise _Hang()

    old = signal.signal(signal.SIGPROF, _alarm)
    signal.setitimer(signal.ITIMER_PROF, wall_s, 2.0)  # CPU seconds of this process; repeating (a raise inside a __del__ is swallowed)
    try:
        with shims.ConcreteRNG():
            import warnings

            with warnings.catch_warnings():
                warnings.simplefilter("ignore")
                hmod.run(conc, cfg)
    except PathEnd:
        pass
    except TapeEnd:
        res["truncated"] = True
    except _Hang:
        res["status"] = "hang"
        conc.failures.append(("hang", "no return within %ss" % wall_s, None))
    except ReplayMismatch as ex:
        res["status"] = "mismatch"
        res["why"] = str(ex)
    except HarnessError as ex:
        res["status"] = "mismatch"
        res["why"] = "HarnessError " + str(ex)
    except Exception as ex:  # harness bug in concrete mode
        res["status"] = "mismatch"
        res["why"] = "harness exception %s: %s" % (type(ex).__name__, ex)
        res["tb"] = traceback.format_exc()[-1500:]
    finally:
        signal.setitimer(signal.ITIMER_PROF, 0)
        signal.signal(signal.SIGPROF, old)
        if was:
            shims.install({k: v[0] for k, v in was.items()})
    res["failures"] = [list(f) for f in conc.failures]
    res["observations"] = getattr(conc, "obs", [])
    res["n_checks"] = conc.n_checks
    res["ended_by_exception"] = conc.ended_by_exception
    return res


def reproduces(res, label, exc):
    for (lab, detail, e) in res["failures"]:
        if lab == label and (exc is None or e == exc):
            return True
    return False


# ----------------------------------------------------------------------------- worker
class _CfgStats:
    def __init__(self):
        self.paths = 0
        self.done = 0
        self.infeasible = 0
        self.timeouts = 0
        self.maybe = 0
        self.decisions = 0
        self.checks = 0
        self.checks_symbolic = 0
        self.unknown = []
        self.cands = {}  # (label, exc) -> Violation json + count
        self.counters = {}
        self.validated = 0
        self.validation_fail = []
        self.samples = []
        self.functions = set()
        self.max_inputs = 0
        self.harness_errors = []

    def to_json(self):
        d = dict(self.__dict__)
        d.pop("paths_since_fail", None)
        d["cands"] = [v for v in self.cands.values()]
        d["functions"] = sorted(self.functions)
        return d


def _profile_functions(root, store):
    root = os.path.realpath(root)

    def prof(frame, event, arg):
        if event == "call":
            fn = frame.f_code.co_filename
            if fn.startswith(root):
                store.add("%s:%s" % (os.path.relpath(fn, root), frame.f_code.co_qualname))

    return prof


def _observations_agree(E, sym_obs, conc_obs, model):
    if len(sym_obs) != len(conc_obs):
        return "observation count differs (%d symbolic, %d concrete)" % (len(sym_obs), len(conc_obs))
    for (k1, v1), (k2, v2) in zip(sym_obs, conc_obs):
        if k1 != k2:
            return "observation order differs: %s vs %s" % (k1, k2)
        if isinstance(v1, eng.Sym):
            v1 = float(frac_of(model.eval(v1.e, model_completion=True)))
        if isinstance(v1, (int, float)) and isinstance(v2, (int, float)) or hasattr(v2, "dtype"):
            a, b = float(v1), float(v2)
            if a != b and abs(a - b) > 1e-6 * max(1.0, abs(a), abs(b)):
                return "observation %s differs: symbolic %r concrete %r" % (k1, a, b)
        elif v1 != v2:
            return "observation %s differs: %r vs %r" % (k1, v1, v2)
    return None


def _worker(hname, cfgs, opts, tasks, results, widx, stop_flags=None, path_counts=None, beat=None):
    try:
        signal.signal(signal.SIGINT, signal.SIG_IGN)
        if beat is not None:
            def _hb():
                beat[widx] = time.time()
            eng.HEARTBEAT[0] = _hb
        hmod = importlib.import_module("harness." + hname)
        mods = shims.load_pyxab()
        if hasattr(hmod, "setup"):
            hmod.setup(mods)
        shims.install(mods)
        from . import ufmodel
        ufmodel.install()  # log/exp/sin/cos/pow of a symbolic value: uninterpreted with axioms (every harness)
        E = Engine(timeout_ms=opts["timeout_ms"], logic=getattr(hmod, "LOGIC", None), path_wall_s=opts["path_wall_s"])
        eng.set_engine(E)
        stats = {}
        t_deadline = opts.get("deadline")
        while True:
            if beat is not None:
                beat[widx] = 0.0  # idle
            item = tasks.get()
            if beat is not None:
                beat[widx] = time.time()
            if item is None:
                tasks.task_done()
                break
            try:
                ci, prefix, maybe = item
                cfg = cfgs[ci]
                st = stats.setdefault(ci, _CfgStats())
                stack = [(prefix, maybe)]
                n_local = 0
                while stack:
                    if stop_flags is not None and stop_flags[ci]:
                        key = {1: "prefixes_cut_after_violation", 3: "prefixes_cut_after_path_timeout"}.get(stop_flags[ci], "prefixes_cut_at_path_budget")
                        st.counters[key] = st.counters.get(key, 0) + len(stack)
                        break
                    if t_deadline and time.time() > t_deadline:
                        st.counters["deadline_dropped"] = st.counters.get("deadline_dropped", 0) + len(stack)
                        break
                    pfx, mb = stack.pop()
                    if beat is not None:
                        beat[widx] = time.time()
                    # a failure whose stored model lies far outside the moderate range (its float replay may be meaningless)
                    # is not yet 'known': later paths failing the same check may supply a better model (at most 8 attempts)
                    cx = SymCtx(E, known_labels=set(k for k, c in st.cands.items() if c.get("nice", True) or c["count"] >= 8))
                    shims.set_ctx(cx)
                    shims.rng_fresh()
                    shims.restore_state()
                    ufmodel.reset()

                    def fn(E_, cx=cx, cfg=cfg, st=st):
                        try:
                            hmod.run(cx, cfg)
                        except PathEnd:
                            pass
                        except Exception as ex:  # harness bug / unsupported proxy operation: exit 2, never a verdict
                            if len(st.harness_errors) < 3:
                                st.harness_errors.append("%s: %s\n%s" % (type(ex).__name__, ex, traceback.format_exc()[-1200:]))
                            st.counters["harness_error_paths"] = st.counters.get("harness_error_paths", 0) + 1

                    profiling = st.paths == 0
                    if profiling:
                        sys.setprofile(_profile_functions(shims.src_root(), st.functions))
                    cpu0 = time.process_time()
                    try:
                        status, alts = E.run_path(fn, pfx, mb)
                    finally:
                        if profiling:
                            sys.setprofile(None)
                    st.counters["max_path_cpu_ms"] = max(st.counters.get("max_path_cpu_ms", 0), int(1000 * (time.process_time() - cpu0)))
                    st.paths += 1
                    st.decisions += len(E.taken)
                    st.max_inputs = max(st.max_inputs, len(E.inputs))
                    st.checks += cx.n_checks
                    st.checks_symbolic += cx.n_checks_symbolic
                    for k, v in cx.counters.items():
                        st.counters[k] = st.counters.get(k, 0) + v
                    if status == "done":
                        st.done += 1
                    elif status == "infeasible":
                        st.infeasible += 1
                    elif status == "timeout":
                        st.timeouts += 1
                        m = E.any_model() if getattr(hmod, "HANG_IS_VIOLATION", False) else None
                        if m is not None:
                            cx._record("hang", "path exceeded %ss wall" % opts["path_wall_s"], m)
                            if stop_flags is not None and not cfg.get("expect_fail"):
                                # one hanging path is the finding; every further path of this configuration would burn the same
                                # budget again (seed S-C01-10 made the whole check run past 25 minutes)
                                stop_flags[ci] = 1
                        if not getattr(hmod, "HANG_IS_VIOLATION", False) and stop_flags is not None:
                            # a call of the code under test that does not return is C01's business; here the configuration is
                            # given up at once (every further path of it would burn the same budget) and listed as not covered
                            stop_flags[ci] = 3
                            st.counters["config_given_up_after_path_timeout"] = 1
                    if E.maybe_infeasible:
                        st.maybe += 1
                    st.unknown.extend(cx.unknown_checks[:5])
                    for key in cx.repeats:
                        if key in st.cands:
                            st.cands[key]["count"] += 1
                    for v in cx.candidates:
                        key = (v.label, v.exc)
                        if key not in st.cands:
                            j = v.to_json()
                            j["count"] = 1
                            j["maybe_infeasible"] = bool(E.maybe_infeasible)
                            st.cands[key] = j
                        else:
                            old_c = st.cands[key]
                            old_c["count"] += 1
                            if not old_c.get("nice", True):
                                j = v.to_json()
                                if v.nice:
                                    more = old_c.get("alts", []) + [old_c["inputs"]]
                                    old_c.update(inputs=j["inputs"], detail=j["detail"], nice=True, maybe_infeasible=bool(E.maybe_infeasible), alts=more[:3])
                                elif len(old_c.get("alts", [])) < 3:
                                    old_c.setdefault("alts", []).append(j["inputs"])
                    # engine validation: concrete replay of this path's model must agree
                    if status == "done" and not cx.candidates and not cx.repeats and not cx.ended_by_exception and (st.validated < opts["validate_first"] or cfg.get("validate_all") or st.done % opts["validate_every"] == 0):
                        m = cx._nice_model(strict_only=True)
                        if m is None:
                            st.counters['validation_skipped_tie_only_path'] = st.counters.get('validation_skipped_tie_only_path', 0) + 1
                        if m is not None:
                            inputs = cx._inputs_from_model(m)
                            res = replay_concrete(hmod, cfg, inputs, complete=True)
                            why = None
                            if res["status"] != "ok":
                                why = res["status"] + ": " + res.get("why", "")
                            elif res["failures"]:
                                why = "concrete run fails %r on a path the solver proved" % (res["failures"][0][:2],)
                                # the unshimmed code is the ground truth: a check that fails on it with these inputs is a
                                # violation candidate in its own right (typically a machine-arithmetic effect - a wrapped
                                # int64, a rounded float - that exact integer / real arithmetic cannot show); it goes through
                                # the ordinary replay before anything is reported
                                f0 = res["failures"][0]
                                key = (f0[0], f0[2] if len(f0) > 2 else None)
                                if key not in st.cands:
                                    st.cands[key] = {"label": f0[0], "detail": "%s  [found by replaying on the unshimmed code a path the solver had proved in exact arithmetic]" % (f0[1],),
                                                     "inputs": inputs, "exc": key[1], "nice": True, "count": 1, "maybe_infeasible": False}
                            elif res.get("ended_by_exception") and not res.get("truncated"):
                                why = "the unshimmed code raised an exception on inputs of a path that ran through symbolically (a machine-arithmetic effect?)"
                            else:
                                why = _observations_agree(E, getattr(cx, "obs", []), res["observations"], m)
                            if why is None:
                                st.validated += 1
                            else:
                                st.validation_fail.append({"why": why, "inputs": inputs})
                            shims.set_ctx(cx)
                    # a path that ends in an exception of the code under test is C01's business — but only if the
                    # real code raises too: an exception that only the proxies provoke would silently end the
                    # exploration here, so the same inputs are replayed on the unshimmed code
                    if status == "done" and cx.ended_by_exception and not cx.own_exceptions and st.counters.get("exception_paths_replayed", 0) < 8:
                        st.counters["exception_paths_replayed"] = st.counters.get("exception_paths_replayed", 0) + 1
                        m = E.any_model()
                        if m is not None:
                            res = replay_concrete(hmod, cfg, cx._inputs_from_model(m), complete=True)
                            shims.set_ctx(cx)
                            if res["status"] == "ok" and not res["ended_by_exception"] and not res.get("truncated"):
                                st.counters["harness_error_paths"] = st.counters.get("harness_error_paths", 0) + 1
                                if len(st.harness_errors) < 3:
                                    st.harness_errors.append("exception raised only under symbolic execution (unsupported operation on proxies): %s" % getattr(cx, "exc_info", "?"))
                    if len(st.samples) < 2 and status == "done":
                        st.samples.append({
                            "config": cfg.get("name"),
                            "decisions": [d if not isinstance(d, tuple) else list(d) for d in E.taken][:60],
                            "n_inputs": len(E.inputs),
                            "inputs": [i[0] for i in E.inputs][:30],
                            "path_condition_head": [str(c)[:160] for c in E.pc[:6]],
                            "log": cx.log[:12],
                        })
                    stack.extend(alts)
                    n_local += 1
                    if path_counts is not None and opts.get("path_budget"):
                        path_counts[ci] += 1
                        if path_counts[ci] >= opts["path_budget"] and not stop_flags[ci]:
                            stop_flags[ci] = 2
                    if st.cands and stop_flags is not None and not cfg.get("expect_fail"):
                        st.paths_since_fail = getattr(st, "paths_since_fail", 0) + 1
                        if st.paths_since_fail >= opts["paths_after_violation"]:
                            stop_flags[ci] = 1
                    # share work when others are idle
                    if len(stack) > 1 and tasks.qsize() < opts["nproc"]:
                        give = stack[: len(stack) // 2]
                        stack = stack[len(stack) // 2:]
                        for g in give:
                            tasks.put((ci, g[0], g[1]))
            finally:
                tasks.task_done()
        out = {ci: st.to_json() for ci, st in stats.items()}
        results.put(("ok", widx, out, {
            "queries": E.n_queries, "feas": E.n_feas, "valid": E.n_valid, "unknown": E.n_unknown,
            "solver_s": E.solver_s, "shortcuts": E.n_model_shortcuts, "concretize_cuts": getattr(E, "n_concretize_cuts", 0)}))
    except BaseException as ex:  # noqa
        results.put(("error", widx, "%s: %s\n%s" % (type(ex).__name__, ex, traceback.format_exc()), None))
        # drain so that join() can finish
        try:
            while True:
                it = tasks.get(timeout=0.5)
                tasks.task_done()
        except Exception:
            pass


# ----------------------------------------------------------------------------- known findings
def load_known():
    p = os.path.join(VERIF, "known_findings.json")
    if not os.path.exists(p):
        return []
    return json.load(open(p)).get("findings", [])


def _match_val(pat, val):
    if isinstance(pat, dict):
        if "in" in pat:
            return val in pat["in"]
        if "lt" in pat:
            return val is not None and val < pat["lt"]
        if "ge" in pat:
            return val is not None and val >= pat["ge"]
        if "prefix" in pat:
            return isinstance(val, str) and val.startswith(pat["prefix"])
        if "contains" in pat:
            return isinstance(val, str) and pat["contains"] in val
        return False
    return pat == val


def match_known(known, prop, cfg, cand):
    for k in known:
        if k.get("status", "open") != "open":
            continue  # fixed entries suppress nothing
        if k["property"] != prop:
            continue
        m = k["match"]
        ok = True
        for key, pat in m.items():
            if key == "label":
                ok = _match_val(pat, cand["label"])
            elif key == "exc":
                ok = _match_val(pat, cand.get("exc"))
            elif key == "detail":
                ok = _match_val(pat, cand.get("detail") or "")
            else:
                ok = _match_val(pat, cfg.get(key))
            if not ok:
                break
        if ok:
            return k
    return None


# ----------------------------------------------------------------------------- main entry
def run_harness(hname, tier="quick", seed=0, only=None):
    t0 = time.time()
    sys.path.insert(0, VERIF)
    hmod = importlib.import_module("harness." + hname)
    prop = hmod.PROPERTY
    cfgs = hmod.configs(tier, seed)
    if only:
        cfgs = [c for c in cfgs if only in c["name"]]
    for i, c in enumerate(cfgs):
        c.setdefault("name", "cfg%d" % i)
    opts = {
        "timeout_ms": getattr(hmod, "TIMEOUT_MS", {}).get(tier, 5000),
        "path_wall_s": getattr(hmod, "PATH_WALL_S", 150 if tier == "quick" else 600),
        "validate_first": getattr(hmod, "VALIDATE_FIRST", 2),
        "validate_every": getattr(hmod, "VALIDATE_EVERY", 97),
        "nproc": NPROC,
        "paths_after_violation": getattr(hmod, "PATHS_AFTER_VIOLATION", 150),
        "path_budget": getattr(hmod, "PATH_BUDGET", {}).get(tier, DEFAULT_PATH_BUDGET.get(tier)),
    }
    budget = getattr(hmod, "WALL_BUDGET_S", {}).get(tier)
    if budget:
        opts["deadline"] = t0 + budget
    order = sorted(range(len(cfgs)), key=lambda i: -cfgs[i].get("cost", 1))
    # the path watchdog counts CPU seconds of the worker, the heartbeat is wall time: on a loaded machine a path that is allowed
    # 150 CPU-s may be silent for several times that long (seed S-C01-10: a hanging call under three concurrent checks made the
    # supervisor restart the exploration again and again)
    stall_s = max(300.0, 20.0 * opts["timeout_ms"] / 1000.0, 4.0 * opts["path_wall_s"] + 120.0)
    restarts = []

    def explore_once():
        """one supervised exploration; returns (outs, errors) or a string saying why it has to be repeated: a worker
        that dies (a crash inside the solver library) or sits in one solver call far beyond its time limit would
        leave tasks.join() waiting for ever and take the results it holds with it"""
        import threading
        tasks = mp.JoinableQueue()
        results = mp.Queue()
        for i in order:
            tasks.put((i, [], False))
        stop_flags = mp.Array("b", len(cfgs), lock=False)
        path_counts = mp.Array("i", len(cfgs), lock=False)
        beat = mp.Array("d", NPROC, lock=False)
        procs = [mp.Process(target=_worker, args=(hname, cfgs, opts, tasks, results, w, stop_flags, path_counts, beat), daemon=True) for w in range(NPROC)]
        for p in procs:
            p.start()
        joined = threading.Event()

        def _join():
            tasks.join()
            joined.set()

        threading.Thread(target=_join, daemon=True).start()
        problem = None
        while not joined.wait(1.0):
            now = time.time()
            for w, p in enumerate(procs):
                if not p.is_alive():
                    problem = "worker %d died (exit code %s)" % (w, p.exitcode)
                elif beat[w] and now - beat[w] > stall_s:
                    problem = "worker %d made no progress for %ds (stuck in a solver call)" % (w, int(now - beat[w]))
            if problem:
                try:  # a worker that ended with an exception has left its traceback in the result queue
                    while True:
                        kind, widx, out, es = results.get(timeout=0.2)
                        if kind == "error":
                            problem += " | worker %s: %s" % (widx, str(out)[-700:])
                            break
                except Exception:  # noqa
                    pass
                for p in procs:
                    if p.is_alive():
                        p.kill()
                for p in procs:
                    p.join(timeout=5)
                return problem
        for p in procs:
            tasks.put(None)
        outs, errors = [], []
        for _ in procs:
            try:
                kind, widx, out, es = results.get(timeout=600)
            except _q.Empty:
                errors.append("worker result missing")
                continue
            if kind == "error":
                errors.append(out)
            else:
                outs.append((out, es))
        for p in procs:
            p.join(timeout=10)
        return outs, errors

    for attempt in range(3):
        got = explore_once()
        if not isinstance(got, str):
            outs, errors = got
            break
        restarts.append(got)
        sys.stderr.write("driver: %s - exploration restarted from scratch (attempt %d)\n" % (got, attempt + 2))
    else:
        outs, errors = [], ["exploration abandoned after 3 attempts: " + "; ".join(restarts)]

    # ---- merge
    merged = {}
    eng_stats = {"queries": 0, "feas": 0, "valid": 0, "unknown": 0, "solver_s": 0.0, "shortcuts": 0, "concretize_cuts": 0}
    for out, es in outs:
        for k in eng_stats:
            eng_stats[k] += es.get(k, 0)
        for ci, st in out.items():
            m = merged.setdefault(ci, None)
            if m is None:
                merged[ci] = st
                continue
            for k in ("paths", "done", "infeasible", "timeouts", "maybe", "decisions", "checks", "checks_symbolic", "validated"):
                m[k] += st[k]
            m["max_inputs"] = max(m["max_inputs"], st["max_inputs"])
            m["unknown"] += st["unknown"]
            m["validation_fail"] += st["validation_fail"]
            m["harness_errors"] += st["harness_errors"]
            m["samples"] = (m["samples"] + st["samples"])[:2]
            m["functions"] = sorted(set(m["functions"]) | set(st["functions"]))
            for k, v in st["counters"].items():
                m["counters"][k] = max(m["counters"].get(k, 0), v) if k.startswith("max_") else m["counters"].get(k, 0) + v
            have = {(c["label"], c.get("exc")): c for c in m["cands"]}
            for c in st["cands"]:
                key = (c["label"], c.get("exc"))
                if key in have:
                    h = have[key]
                    h["count"] += c["count"]
                    if c.get("nice", True) and not h.get("nice", True):
                        alts = ([h["inputs"]] + h.get("alts", []) + c.get("alts", []))[:3]
                        h.update(inputs=c["inputs"], detail=c["detail"], nice=True, maybe_infeasible=c.get("maybe_infeasible", False), alts=alts)
                    else:
                        h["alts"] = (h.get("alts", []) + [c["inputs"]] + c.get("alts", []))[:3]
                else:
                    m["cands"].append(c)

    # ---- replay candidates (in the parent, on the unshimmed code)
    known = load_known()
    os.makedirs(os.path.join(EVID, "replays"), exist_ok=True)
    for fn in os.listdir(os.path.join(EVID, "replays")):
        if fn.startswith(prop + "-"):
            os.remove(os.path.join(EVID, "replays", fn))
    mods = shims.load_pyxab()
    if hasattr(hmod, "setup"):
        hmod.setup(mods)
    violations, known_hits, unreplayed, twins_ok, twins_missing = [], [], [], [], []
    nrep = 0
    for ci in sorted(merged):
        cfg = cfgs[ci]
        st = merged[ci]
        expect = cfg.get("expect_fail")
        got_expected = False
        for cand in st["cands"]:
            res = replay_concrete(hmod, cfg, cand["inputs"], wall_s=getattr(hmod, "REPLAY_WALL_S", 60))
            ok = res["status"] in ("ok", "hang") and reproduces(res, cand["label"], cand.get("exc"))
            rec = {"property": prop, "harness": hname, "cfg": cfg, "label": cand["label"], "exc": cand.get("exc"),
                   "detail": cand.get("detail"), "inputs": cand["inputs"], "paths_with_this_failure": cand["count"],
                   "concrete_failures": res["failures"][:5], "replay_status": res["status"], "why": res.get("why")}
            if expect and cand["label"] == expect:
                if ok:
                    got_expected = True
                    twins_ok.append(cfg["name"])
                else:
                    unreplayed.append(rec)
                continue
            if not ok:
                # other paths failing the same check supplied further models: any of them that reproduces will do
                for alt in cand.get("alts", []):
                    res2 = replay_concrete(hmod, cfg, alt, wall_s=getattr(hmod, "REPLAY_WALL_S", 60))
                    if res2["status"] in ("ok", "hang") and reproduces(res2, cand["label"], cand.get("exc")):
                        ok, res = True, res2
                        rec["inputs"] = alt
                        rec["concrete_failures"] = res2["failures"][:5]
                        rec["replay_status"] = res2["status"]
                        break
            if not ok and hasattr(hmod, "refine_counterexample"):
                # the solver's model may be spurious w.r.t. abstracted functions: let the harness look for a
                # concrete witness near it; only a concretely reproduced input is ever reported
                for alt in hmod.refine_counterexample(cfg, cand):
                    res2 = replay_concrete(hmod, cfg, alt, wall_s=10)
                    if res2["status"] in ("ok", "hang") and reproduces(res2, cand["label"], cand.get("exc")):
                        ok, res = True, res2
                        rec["inputs"] = alt
                        rec["concrete_failures"] = res2["failures"][:5]
                        rec["note"] = "solver verdict: bound not provable; concrete witness located by grid refinement around the solver model"
                        break
            if not ok:
                if cand.get("maybe_infeasible"):
                    st["counters"]["maybe_infeasible_candidates_dropped"] = st["counters"].get("maybe_infeasible_candidates_dropped", 0) + 1
                    continue
                unreplayed.append(rec)
                continue
            k = match_known(known, prop, cfg, cand)
            if k is not None:
                known_hits.append((k, cfg["name"], cand["label"]))
                continue
            nrep += 1
            path = os.path.join(EVID, "replays", "%s-%d.json" % (prop, nrep))
            json.dump(rec, open(path, "w"), indent=1, default=str)
            violations.append((path, rec))
        if expect and not got_expected:
            twins_missing.append(cfg["name"])

    # ---- lemmas (solver obligations discharged outside the path exploration, e.g. floating-point lemmas)
    lemma_results = []
    if hasattr(hmod, "lemma_specs"):
        specs = hmod.lemma_specs(tier)
        if only:
            specs = [sp for sp in specs if only in sp["name"]]
        if specs:
            with mp.Pool(min(NPROC, len(specs))) as pool:
                lemma_results = pool.map(hmod.run_lemma, specs)
        for sp, r in zip(specs, lemma_results):
            r.setdefault("lemma", sp["name"])
            if r["status"] == "violated":
                if r.get("replayable") and hmod.lemma_replay(r):
                    nrep += 1
                    path = os.path.join(EVID, "replays", "%s-%d.json" % (prop, nrep))
                    rec = {"property": prop, "harness": hname, "cfg": {"name": "lemma:" + r["lemma"]}, "label": "lemma:" + r["lemma"], "detail": str(r.get("witness")), "inputs": [], "lemma": r}
                    json.dump(rec, open(path, "w"), indent=1, default=str)
                    violations.append((path, rec))
                else:
                    unreplayed.append({"cfg": {"name": "lemma:" + r["lemma"]}, "label": "lemma", "why": "counterexample of a reduced-precision lemma cannot be replayed on the binary64 code: %s" % (r.get("witness"),), "concrete_failures": []})
            elif r["status"] == "error":
                errors.append("lemma %s: %s" % (r["lemma"], r.get("detail")))

    # ---- verdict
    tot = {k: sum(m[k] for m in merged.values()) for k in ("paths", "done", "infeasible", "timeouts", "maybe", "decisions", "checks", "checks_symbolic", "validated")}
    unknown_checks = sum(len(m["unknown"]) for m in merged.values())
    validation_fail = [dict(v, config=cfgs[ci]["name"]) for ci, m in merged.items() for v in m["validation_fail"]]
    dropped = sum(m["counters"].get("deadline_dropped", 0) + m["counters"].get("prefixes_cut_at_path_budget", 0) for m in merged.values())
    cut_cfgs = sorted(cfgs[ci]["name"] for ci, m in merged.items() if m["counters"].get("prefixes_cut_at_path_budget", 0))
    missing_cfgs = [cfgs[i]["name"] for i in range(len(cfgs)) if i not in merged]
    functions = sorted(set(f for m in merged.values() for f in m["functions"]))
    hang_incon = 0
    for ci, m in merged.items():
        if m["timeouts"] and not getattr(hmod, "HANG_IS_VIOLATION", False):
            hang_incon += m["timeouts"]

    seen = set()
    for k, cname, lab in known_hits:
        if k["id"] in seen:
            continue
        seen.add(k["id"])
        print("KNOWN-FINDING: property=%s %s [%s] (first seen in config %s, check %s)" % (prop, k["id"], k["what"], cname, lab))
    for path, rec in violations[:25]:
        print("VIOLATION property=%s replay=%s" % (prop, path))
        print("  config=%s check=%s %s" % (rec["cfg"]["name"], rec["label"], (rec.get("detail") or "")[:200]))
    if len(violations) > 25:
        print("  ... and %d more replayed violations (see %s/replays/%s-*.json)" % (len(violations) - 25, EVID, prop))

    status = 0
    reasons = []
    if errors:
        status = 2
        reasons.append("worker errors: " + errors[0][:2000])
    herrs = [(cfgs[ci]["name"], e) for ci, m in merged.items() for e in m.get("harness_errors", [])]
    if herrs:
        status = 2
        reasons.append("harness error in %d config(s), e.g. %s: %s" % (len(set(h[0] for h in herrs)), herrs[0][0], herrs[0][1][-900:]))
    if missing_cfgs and not dropped:
        status = 2
        reasons.append("configurations not explored: %s" % missing_cfgs[:5])
    if tot["checks_symbolic"] == 0 and not getattr(hmod, "ALLOW_NO_SYMBOLIC_CHECKS", False):
        status = 2
        reasons.append("vacuity: no assertion was evaluated on a symbolic formula")
    if twins_missing:
        status = max(status, 2)
        reasons.append("vacuity: reachability twins did not fail: %s" % twins_missing[:5])
    if status == 0 and (unreplayed or validation_fail):
        status = 3
        if unreplayed:
            reasons.append("%d counterexample(s) did not reproduce concretely, e.g. %s / %s / %s" % (
                len(unreplayed), unreplayed[0]["cfg"]["name"], unreplayed[0]["label"], unreplayed[0].get("why") or unreplayed[0]["concrete_failures"][:1]))
        if validation_fail:
            reasons.append("%d path(s): concrete replay disagrees with symbolic run, e.g. %s: %s" % (len(validation_fail), validation_fail[0]["config"], validation_fail[0]["why"]))
    if violations:
        status = 1
    wall = time.time() - t0

    # ---- evidence
    incomplete = {"unknown_checks": unknown_checks, "solver_unknown": eng_stats["unknown"], "paths_maybe_infeasible": tot["maybe"],
                  "path_timeouts_inconclusive": hang_incon, "prefixes_dropped_at_deadline_or_path_budget": dropped,
                  "configurations_cut_at_path_budget": {"budget_paths_per_configuration": opts.get("path_budget"), "names": cut_cfgs}}
    incomplete["configurations_given_up_after_a_path_exceeded_the_cpu_limit"] = {"limit_s": opts["path_wall_s"], "names": [cfgs[ci]["name"] for ci, m in sorted(merged.items()) if m["counters"].get("config_given_up_after_path_timeout", 0)]}
    incomplete["enumerations_of_an_unbounded_integer_cut_after_12_values"] = eng_stats["concretize_cuts"]
    incomplete["max_cpu_s_of_one_path"] = max([m["counters"].get("max_path_cpu_ms", 0) for m in merged.values()] or [0]) / 1000.0
    samples = []
    for ci in sorted(merged):
        samples.extend(merged[ci]["samples"][:1])
        if len(samples) >= 4:
            break
    per_cfg = {cfgs[ci]["name"]: {"paths": m["paths"], "done": m["done"], "checks_symbolic": m["checks_symbolic"],
                                   "validated": m["validated"], "max_symbolic_inputs": m["max_inputs"],
                                   "failing_checks": {c["label"]: c["count"] for c in m["cands"]}} for ci, m in sorted(merged.items())}
    counters = {}
    for m in merged.values():
        for k, v in m["counters"].items():
            counters[k] = max(counters.get(k, 0), v) if k.startswith("max_") else counters.get(k, 0) + v

    ev = {
        "property_id": prop,
        "tier": tier,
        "seed": int(seed),
        "level": "model_checking",
        "coverage": {
            "states": max(tot["done"], 1) if tot["done"] else 0,
            "transitions": tot["decisions"],
            "traces_validated_against_impl": tot["validated"],
            "samples": samples or [{"note": "no completed path"}],
            "exhaustive": bool(dropped == 0 and unknown_checks == 0 and tot["maybe"] == 0),
            "explanation": "states = completed symbolic paths of the real PyXAB code (each stands for all concrete runs taking the same decisions); transitions = branch decisions; traces_validated = paths whose solver model was replayed on the unshimmed code and agreed",
            "technique": "symbolic execution of the real code on z3 proxy values; every assertion decided by an SMT validity query under the path condition",
            "source_tree": shims.src_root(),
            "functions_encoded": functions,
            "configurations": len(cfgs),
            "bounds": _bounds_with_modes(hmod, tier, cfgs),
            "paths_total": tot["paths"],
            "paths_infeasible_pruned": tot["infeasible"],
            "assertions_evaluated": tot["checks"],
            "assertions_decided_by_solver": tot["checks_symbolic"],
            "assertion_kinds": {k[4:]: v for k, v in counters.items() if k.startswith("sym:")},
            "solver": {"name": "z3 " + z3.get_version_string(), "queries": eng_stats["queries"], "feasibility": eng_stats["feas"],
                       "validity": eng_stats["valid"], "unknown": eng_stats["unknown"], "solver_s": round(eng_stats["solver_s"], 2),
                       "branch_sides_decided_by_cached_model": eng_stats["shortcuts"], "per_query_timeout_ms": opts["timeout_ms"]},
            "not_covered": incomplete,
            "reachability_twins_failed_as_expected": len(twins_ok),
            "known_findings_hit": sorted(seen),
            "unreplayed_counterexamples": len(unreplayed),
            "unreplayed_samples": [{"config": u["cfg"]["name"], "label": u["label"], "detail": str(u.get("detail"))[:300], "inputs": u.get("inputs"),
                                    "replay_status": u.get("replay_status"), "concrete_failures": u.get("concrete_failures"), "why": u.get("why")} for u in unreplayed[:3]],
            "exploration_restarts": restarts,
            "per_config": per_cfg if len(per_cfg) <= 400 else {"note": "%d configs" % len(per_cfg)},
            "extra": getattr(hmod, "EXTRA_EVIDENCE", {}),
            "lemmas": [{k: v for k, v in r.items() if k != "detail" or r["status"] != "holds"} for r in lemma_results],
            "lemmas_not_discharged": [r["lemma"] for r in lemma_results if r["status"] == "unknown"],
        },
        "assumptions": list(getattr(hmod, "ASSUMPTIONS", [])) + COMMON_ASSUMPTIONS,
        "wall_s": round(wall, 2),
        "violations": len(violations),
    }
    if status in (2, 3):
        ev["coverage"]["harness_status"] = {"exit": status, "reasons": reasons}
    os.makedirs(EVID, exist_ok=True)
    json.dump(ev, open(os.path.join(EVID, prop + ".json"), "w"), indent=1, default=str)
    print("%s %s: configs=%d paths=%d (done %d, pruned %d) decisions=%d checks=%d (solver-decided %d) queries=%d unknown=%d solver=%.1fs validated=%d wall=%.1fs -> exit %d" % (
        prop, tier, len(cfgs), tot["paths"], tot["done"], tot["infeasible"], tot["decisions"], tot["checks"], tot["checks_symbolic"],
        eng_stats["queries"], eng_stats["unknown"], eng_stats["solver_s"], tot["validated"], wall, status))
    for r in reasons:
        print("  !", r)
    if unknown_checks or tot["maybe"] or dropped or hang_incon:
        print("  not covered:", incomplete)
    return status


def _bounds_with_modes(hmod, tier, cfgs):
    b = dict(hmod.bounds(tier)) if hasattr(hmod, "bounds") else {}
    kinds = {}
    for c in cfgs:
        k = c["name"].split("-")[0]
        kinds[k] = kinds.get(k, 0) + 1
    b["configurations_by_kind"] = kinds
    pre = [c for c in cfgs if c.get("prefix")]
    if pre:
        b["mode_B"] = {"configurations": len(pre), "what": "concrete box [-1,3]^d, concrete objective-like rewards and concrete RNG draws for the first P rounds, then k fully symbolic rounds",
                       "prefix_lengths_P": sorted(set(c["prefix"]["P"] for c in pre)), "symbolic_rounds_k": sorted(set(c["prefix"]["k"] for c in pre)),
                       "algorithms": sorted(set(c.get("algo", "?") for c in pre)), "prefix_seeds": sorted(set(c["prefix"].get("seed", 0) for c in pre))}
    return b


DEFAULT_PATH_BUDGET = {"quick": 25000, "thorough": 8000}  # quick: a safety net far above every configuration of the unchanged tree

COMMON_ASSUMPTIONS = [
    "arithmetic on symbolic values is exact (reals); every concrete double enters terms as its exact rational value; IEEE rounding of symbolic arithmetic is not modelled (near-ties below rounding error are outside the claim)",
    "np.random.* follow their documented contracts (randint in range, uniform in the closed interval, choice an index with p>0, normal any real); math/np shims are transparent on concrete values (checked by the transparency validation)",
    "claims hold within the stated bounds only (rounds, configurations, parameter grid); an assertion the solver answered 'unknown' is reported under not_covered and is not claimed",
]


def replay_file(path):
    """bin/check <id> --replay <file>: re-run a recorded counterexample on the unshimmed code"""
    sys.path.insert(0, VERIF)
    rec = json.load(open(path))
    hmod = importlib.import_module("harness." + rec["harness"])
    mods = shims.load_pyxab()
    if hasattr(hmod, "setup"):
        hmod.setup(mods)
    res = replay_concrete(hmod, rec["cfg"], rec["inputs"], wall_s=getattr(hmod, "REPLAY_WALL_S", 60))
    print("replay of %s on %s: status=%s" % (path, shims.src_root(), res["status"]))
    print(" config:", rec["cfg"].get("name"), " failing check:", rec["label"], rec.get("exc") or "")
    print(" inputs:", [(n, (float(int(v[0]) / int(v[1])) if isinstance(v, list) else v)) for n, k, v in rec["inputs"]][:40])
    for f in res["failures"][:10]:
        print(" concrete failure:", f)
    ok = reproduces(res, rec["label"], rec.get("exc"))
    print("REPRODUCED" if ok else "not reproduced")
    return 1 if ok else 0
