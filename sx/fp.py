"""Floating-point backend (DESIGN §1.4): the real PyXAB / NumPy code is run on proxies that build
z3 FloatingPoint terms (round-to-nearest-even).  No path exploration here: a branch on an FP
comparison must be decided by the precondition (otherwise the lemma run is inconclusive)."""
import time

import numpy as np
import z3

RM = z3.RNE()


class FPInconclusive(Exception):
    pass


class FPSession:
    def __init__(self, eb, sb, timeout_ms=600000):
        self.sort = z3.FPSort(eb, sb)
        self.eb, self.sb = eb, sb
        self.pre = []
        self.timeout_ms = timeout_ms
        self.queries = 0
        self.solver_s = 0.0

    def var(self, name):
        return SymFP(self, z3.FP(name, self.sort))

    def val(self, x):
        return z3.FPVal(float(x), self.sort)

    def assume(self, c):
        self.pre.append(c)

    def check(self, *extra):
        s = z3.Solver()
        s.set("timeout", self.timeout_ms)
        s.add(*self.pre)
        s.add(*extra)
        t = time.time()
        r = s.check()
        self.solver_s += time.time() - t
        self.queries += 1
        return r, (s.model() if r == z3.sat else None)

    def prove(self, prop):
        """'holds' / ('violated', model) / 'unknown'"""
        r, m = self.check(z3.Not(prop))
        if r == z3.unsat:
            return "holds", None
        if r == z3.sat:
            return "violated", m
        return "unknown", None


class FBool:
    def __init__(self, S, e):
        self.S, self.e = S, e

    def __bool__(self):
        a, _ = self.S.check(self.e)
        b, _ = self.S.check(z3.Not(self.e))
        if a == z3.unsat and b != z3.unsat:
            return False
        if b == z3.unsat and a != z3.unsat:
            return True
        raise FPInconclusive("branch on an FP comparison not decided by the precondition: %s" % self.e)

    def any(self):
        return bool(self)

    def all(self):
        return bool(self)


class SymFP:
    def __init__(self, S, e):
        self.S, self.e = S, e

    def __deepcopy__(self, m):
        return self

    def __hash__(self):
        return id(self)

    def c(self, o):
        if isinstance(o, SymFP):
            return o.e
        if isinstance(o, (int, float, np.integer, np.floating)):
            return z3.FPVal(float(o), self.S.sort)
        raise TypeError(type(o))

    def _r(self, e):
        return SymFP(self.S, e)

    def __add__(self, o):
        try:
            return self._r(z3.fpAdd(RM, self.e, self.c(o)))
        except TypeError:
            return NotImplemented

    def __radd__(self, o):
        return self._r(z3.fpAdd(RM, self.c(o), self.e))

    def __sub__(self, o):
        try:
            return self._r(z3.fpSub(RM, self.e, self.c(o)))
        except TypeError:
            return NotImplemented

    def __rsub__(self, o):
        return self._r(z3.fpSub(RM, self.c(o), self.e))

    def __mul__(self, o):
        try:
            return self._r(z3.fpMul(RM, self.e, self.c(o)))
        except TypeError:
            return NotImplemented

    def __rmul__(self, o):
        return self._r(z3.fpMul(RM, self.c(o), self.e))

    def __truediv__(self, o):
        try:
            return self._r(z3.fpDiv(RM, self.e, self.c(o)))
        except TypeError:
            return NotImplemented

    def __rtruediv__(self, o):
        return self._r(z3.fpDiv(RM, self.c(o), self.e))

    def __neg__(self):
        return self._r(z3.fpNeg(self.e))

    def __eq__(self, o):
        return FBool(self.S, z3.fpEQ(self.e, self.c(o)))

    def __ne__(self, o):
        return FBool(self.S, z3.Not(z3.fpEQ(self.e, self.c(o))))

    def __lt__(self, o):
        return FBool(self.S, z3.fpLT(self.e, self.c(o)))

    def __le__(self, o):
        return FBool(self.S, z3.fpLEQ(self.e, self.c(o)))

    def __gt__(self, o):
        return FBool(self.S, z3.fpGT(self.e, self.c(o)))

    def __ge__(self, o):
        return FBool(self.S, z3.fpGEQ(self.e, self.c(o)))


def fp_to_float(m, term):
    v = m.eval(term, model_completion=True)
    return float(z3.simplify(z3.fpToReal(v)).as_fraction()) if not (z3.is_fp_value(v) and (v.isInf() or v.isNaN())) else float(str(v).replace("oo", "inf"))
