"""Shims injected into the PyXAB modules' globals at run time (no source edits) — DESIGN §1.3.

`math` -> MathShim (pass-through on concrete arguments, proxies otherwise)
`np`   -> NpShim  (real numpy, except maximum/minimum merged into ite terms and
                   np.random.* replaced by RNG-tape stubs)

In *concrete* (replay / transparency) mode the PyXAB modules keep the real `math`/`np`;
only `numpy.random.{randint,uniform,choice,normal}` are temporarily replaced by functions
that read the recorded tape.
"""
import importlib
import math
import os
import sys
import types

import numpy
import z3

from . import engine as eng
from .engine import Sym, SymBool, HarnessError, is_inf, toz, zmax, zmin

ALGO_MODS = [
    "HOO", "HCT", "VHCT", "POO", "GPO", "PCT", "VPCT", "DOO", "SOO", "StoSOO",
    "SequOOL", "StroquOOL", "VROOM", "Zooming", "Algo",
]
PART_MODS = [
    "Node", "Partition", "BinaryPartition", "RandomBinaryPartition",
    "DimensionBinaryPartition", "KaryPartition", "RandomKaryPartition",
]
OBJ_MODS = ["Garland", "DoubleSine", "DifficultFunc", "Ackley", "Himmelblau", "Rastrigin", "Cexample", "Objective"]

_ctx = [None]


def set_ctx(c):
    _ctx[0] = c


def ctx():
    if _ctx[0] is None:
        raise HarnessError("no active context")
    return _ctx[0]


def src_root():
    return os.environ.get("PYXAB_SRC", "/repo")


def load_pyxab():
    """import PyXAB from $PYXAB_SRC (default /repo), current working tree, no caching"""
    root = src_root()
    if sys.path[0] != root:
        sys.path.insert(0, root)
    import PyXAB  # noqa

    f = os.path.realpath(PyXAB.__file__)
    if not f.startswith(os.path.realpath(root) + os.sep):
        raise HarnessError("PyXAB imported from %s, expected under %s" % (f, root))
    mods = {}
    for m in ALGO_MODS:
        mods[m] = importlib.import_module("PyXAB.algos." + m)
    for m in PART_MODS:
        mods[m] = importlib.import_module("PyXAB.partition." + m)
    for m in OBJ_MODS:
        mods[m] = importlib.import_module("PyXAB.synthetic_obj." + m)
    if _STATE["owners"] is None:
        snapshot_state(mods)
    return mods


# ------------------------------------------------------------------ process-wide state of the code under test
# Module globals and class attributes of the PyXAB modules that hold data (containers, numbers): code that
# memoises in them would carry values - proxies even - from one explored path into the next and into the
# concrete replays.  They are put back to their import-time content before every path and every replay.
_STATE = {"owners": None}
_DATA = (list, dict, set, int, float, str, bool, tuple, type(None), Sym)


def _data_attrs(owner):
    out = {}
    for k, v in list(vars(owner).items()):
        if k.startswith("__") and k.endswith("__"):
            continue
        if isinstance(v, _DATA):
            out[k] = v
    return out


def snapshot_state(mods):
    import copy
    owners = []
    for m in mods.values():
        owners.append(m)
        for v in list(vars(m).values()):
            if isinstance(v, type) and getattr(v, "__module__", None) == m.__name__:
                owners.append(v)
    snap = []
    for o in owners:
        d = _data_attrs(o)
        snap.append((o, {k: (v, copy.deepcopy(v)) for k, v in d.items()}))
    _STATE["owners"] = snap
    # state kept by functions: mutable closure cells (a memo table of a decorator), function attributes (f.cache = {}) and
    # functools caches (lru_cache / cache) of every function and method defined in the PyXAB modules
    funcs, seen = [], set()

    def add(f):
        f = getattr(f, "__func__", f)
        if id(f) in seen:
            return
        seen.add(id(f))
        if hasattr(f, "cache_clear") and callable(getattr(f, "cache_clear", None)):
            funcs.append(("lru", f, None))
            add(getattr(f, "__wrapped__", None))
            return
        if not callable(f) or not hasattr(f, "__code__"):
            return
        for cell in (f.__closure__ or ()):
            try:
                v = cell.cell_contents
            except ValueError:
                continue
            if isinstance(v, (list, dict, set)):
                funcs.append(("cell", v, copy.deepcopy(v)))
            elif callable(v):
                add(v)
        for k, v in list(vars(f).items()) if hasattr(f, "__dict__") else ():
            if isinstance(v, (list, dict, set)):
                funcs.append(("cell", v, copy.deepcopy(v)))
        add(getattr(f, "__wrapped__", None))

    for o in owners:
        for v in list(vars(o).values()):
            if isinstance(v, (staticmethod, classmethod)):
                v = v.__func__
            if callable(v) and not isinstance(v, type):
                try:
                    add(v)
                except Exception:  # noqa
                    pass
    _STATE["funcs"] = funcs


def restore_state():
    """put the data-valued module globals / class attributes back (content and binding); drop the ones added since"""
    import copy
    if _STATE["owners"] is None:
        return
    for kind, obj, pristine in _STATE.get("funcs") or ():
        if kind == "lru":
            try:
                obj.cache_clear()
            except Exception:  # noqa
                pass
        else:
            fresh = copy.deepcopy(pristine)
            obj.clear()
            if isinstance(obj, list):
                obj.extend(fresh)
            else:
                obj.update(fresh)
    for o, rec in _STATE["owners"]:
        for k in list(_data_attrs(o)):
            if k not in rec:
                try:
                    delattr(o, k)
                except (AttributeError, TypeError):
                    pass
        for k, (obj, pristine) in rec.items():
            if isinstance(obj, (list, dict, set)):
                fresh = copy.deepcopy(pristine)
                obj.clear()
                if isinstance(obj, list):
                    obj.extend(fresh)
                else:
                    obj.update(fresh)
            if vars(o).get(k, _STATE) is not obj:
                try:
                    setattr(o, k, obj)
                except (AttributeError, TypeError):
                    pass


# ------------------------------------------------------------------ math
class MathShim:
    def __getattr__(self, k):
        return getattr(math, k)

    @staticmethod
    def _sym(*a):
        return any(isinstance(x, Sym) for x in a)

    def sqrt(self, x):
        return x.sqrt() if isinstance(x, Sym) else math.sqrt(x)

    def log(self, x, *base):
        if self._sym(x, *base):
            if base:
                if base[0] == 2 and isinstance(x, Sym):
                    return x.log2()
                raise HarnessError("log with symbolic/unsupported base")
            return x.log()
        return math.log(x, *base)

    def pow(self, a, b):
        if self._sym(a, b):
            h = eng._POW_HOOK[0]
            if h is None:
                raise HarnessError("math.pow of symbolic without a model")
            return h(a, b)
        return math.pow(a, b)

    def floor(self, x):
        return x.floor() if isinstance(x, Sym) else math.floor(x)

    def ceil(self, x):
        return x.ceil() if isinstance(x, Sym) else math.ceil(x)

    def fabs(self, x):
        return abs(x) if isinstance(x, Sym) else math.fabs(x)

    def exp(self, x):
        return x.exp() if isinstance(x, Sym) else math.exp(x)

    def sin(self, x):
        return x.sin() if isinstance(x, Sym) else math.sin(x)

    def cos(self, x):
        return x.cos() if isinstance(x, Sym) else math.cos(x)

    def isinf(self, x):
        return False if isinstance(x, Sym) else math.isinf(x)

    def isnan(self, x):
        return False if isinstance(x, Sym) else math.isnan(x)

    def isfinite(self, x):
        return True if isinstance(x, Sym) else math.isfinite(x)

    def isclose(self, a, b, rel_tol=1e-09, abs_tol=0.0):
        if not self._sym(a, b):
            return math.isclose(a, b, rel_tol=rel_tol, abs_tol=abs_tol)
        d = abs(a - b)
        return bool(d <= zmax(rel_tol * zmax(abs(a), abs(b)), abs_tol))

    def copysign(self, a, b):
        if not self._sym(a, b):
            return math.copysign(a, b)
        return abs(a) if b >= 0 else -abs(a)


# ------------------------------------------------------------------ numpy
# record / replay of RNG outcomes inside one path (same seed => same draws; used by C14, C15, C16)
RNG_STATE = {"mode": "fresh", "tape": [], "pos": 0, "map": None}


def rng_record():
    RNG_STATE.update(mode="record", tape=[], pos=0, map=None)


def rng_replay(tape=None, fmap=None):
    """replay the recorded draws; fmap(kind, value, args) may transform them (C16: affine image)"""
    RNG_STATE.update(mode="replay", tape=list(RNG_STATE["tape"] if tape is None else tape), pos=0, map=fmap)


def rng_fresh():
    RNG_STATE.update(mode="fresh", pos=0, map=None)


def rng_concrete(seed):
    """Mode B prefix: draws are concrete values from a deterministic stream (identical in the symbolic
    run and in the concrete replay, so they are not inputs)"""
    import random as _random
    RNG_STATE.update(mode="concrete", tape=[], pos=0, map=None, gen=_random.Random(seed))


def _concrete_draw(kind, args):
    g = RNG_STATE["gen"]
    log = ctx().rng_log
    if kind == "randint":
        lo, hi = args
        if hi is None:
            lo, hi = 0, lo
        v = int(lo) + g.randrange(int(hi) - int(lo))
        log.append(("randint", v, int(lo), int(hi)))
        return v
    if kind == "uniform":
        a, b = args
        u = a + (b - a) * (g.randrange(1, 64) / 64.0)
        log.append(("uniform", u))
        return u
    if kind == "choice":
        a, p = args
        items = list(a) if hasattr(a, "__len__") else list(range(int(a)))
        if p is None:
            return items[g.randrange(len(items))]
        p = list(p)
        if len(p) != len(items):
            raise ValueError("'a' and 'p' must have same size")
        if any(w < 0 for w in p):
            raise ValueError("probabilities are not non-negative")
        if abs(float(sum(p)) - 1.0) > math.sqrt(numpy.finfo(numpy.float64).eps):
            raise ValueError("probabilities do not sum to 1")
        pos = [i for i, w in enumerate(p) if w > 0]
        k = pos[g.randrange(len(pos))]
        log.append(("choice", k, p))
        return items[k]
    if kind == "normal":
        return (g.randrange(-128, 129)) / 64.0
    raise HarnessError("concrete draw of " + kind)


def _rng(kind, fresh, args=()):
    st = RNG_STATE
    if st["mode"] == "concrete":
        return _concrete_draw(kind, args)
    if st["mode"] == "replay":
        if st["pos"] >= len(st["tape"]):
            st["diverged"] = True
            return fresh()
        k, v = st["tape"][st["pos"]]
        st["pos"] += 1
        if k != kind:
            st["diverged"] = True
            return fresh()
        return st["map"](kind, v, args) if st["map"] else v
    v = fresh()
    if st["mode"] == "record":
        st["tape"].append((kind, v))
    return v


class RandomShim:
    """np.random.* — each draw is delegated to the active context (symbolic: fresh
    constrained variable / fork; concrete: next value of the recorded tape)"""

    def randint(self, low, high=None, size=None):
        if size is not None:
            raise HarnessError("randint(size=) unsupported")
        if high is None:
            low, high = 0, low
        return _rng("randint", lambda: ctx().rng_randint(int(low), int(high)), (low, high))

    def uniform(self, low=0.0, high=1.0, size=None):
        if size is not None:
            raise HarnessError("uniform(size=) unsupported")
        return _rng("uniform", lambda: ctx().rng_uniform(low, high), (low, high))

    def choice(self, a, size=None, replace=True, p=None):
        if size is not None:
            raise HarnessError("choice(size=) unsupported")
        return _rng("choice", lambda: ctx().rng_choice(a, p), (a, p))

    def normal(self, loc=0.0, scale=1.0, size=None):
        if size is not None:
            raise HarnessError("normal(size=) unsupported")
        return _rng("normal", lambda: ctx().rng_normal(loc, scale), (loc, scale))

    def default_rng(self, seed=None):
        """an unseeded Generator is an environment (fresh arbitrary values); a seeded one is the real thing"""
        if seed is not None:
            return numpy.random.default_rng(seed)
        return EnvRNG("np.random.default_rng()")

    def RandomState(self, seed=None):
        if seed is not None:
            return numpy.random.RandomState(seed)
        return EnvRNG("np.random.RandomState()")

    def seed(self, *a, **kw):
        return None

    def __getattr__(self, k):
        raise HarnessError("np.random.%s is not modelled" % k)


class EnvRNG:
    """a random source that is NOT numpy's seeded global generator: every draw is a fresh arbitrary value of the
    environment (C14: runs must not depend on it)"""

    def __init__(self, name):
        self._name = name

    def random(self, *a):
        c = ctx()
        v = c.env_value(self._name + ".random")
        c.assume(v >= 0)
        c.assume(v <= 1)
        return v

    random_sample = random

    def uniform(self, a=0.0, b=1.0, *rest):
        c = ctx()
        v = c.env_value(self._name + ".uniform")
        c.assume(v >= a)
        c.assume(v <= b)
        return v

    def normal(self, *a, **kw):
        return ctx().env_value(self._name + ".normal")

    gauss = normal

    def _int(self, lo, hi):
        """arbitrary integer in [lo, hi) - every value is explored"""
        c = ctx()
        if hi - lo <= 0:
            raise ValueError("empty range")
        return lo + c.env_choice(hi - lo, self._name + ".int")

    def integers(self, low, high=None, *a, **kw):
        if high is None:
            low, high = 0, low
        return self._int(int(low), int(high))

    def randint(self, a, b=None):
        if isinstance(self, EnvRandomModule):
            return self._int(int(a), int(b) + 1)  # random.randint is inclusive
        if b is None:
            a, b = 0, a
        return self._int(int(a), int(b))

    def randrange(self, a, b=None):
        if b is None:
            a, b = 0, a
        return self._int(int(a), int(b))

    def choice(self, seq, *a, **kw):
        seq = list(seq) if hasattr(seq, "__len__") else list(range(int(seq)))
        return seq[self._int(0, len(seq))]

    def shuffle(self, x):
        for i in range(len(x) - 1, 0, -1):
            j = self._int(0, i + 1)
            x[i], x[j] = x[j], x[i]

    def permutation(self, x):
        y = list(x) if hasattr(x, "__len__") else list(range(int(x)))
        self.shuffle(y)
        return y

    def getrandbits(self, k):
        return self._int(0, 2 ** min(int(k), 3))


class EnvRandomModule(EnvRNG):
    """Python's `random` module seen from a PyXAB module"""

    def seed(self, *a, **kw):
        return None


class NpShim:
    def __init__(self):
        self._np = numpy
        self.random = RandomShim()

    def __getattr__(self, k):
        return getattr(self._np, k)

    def maximum(self, a, b):
        if isinstance(a, Sym) or isinstance(b, Sym):
            return zmax(a, b)
        return numpy.maximum(a, b)

    def minimum(self, a, b):
        if isinstance(a, Sym) or isinstance(b, Sym):
            return zmin(a, b)
        return numpy.minimum(a, b)

    def clip(self, x, lo, hi, *a, **kw):
        if self._has_sym(x, lo, hi) and not isinstance(x, (list, tuple, numpy.ndarray)):
            y = x
            if lo is not None:
                y = zmax(y, lo)
            if hi is not None:
                y = zmin(y, hi)
            return y
        return numpy.clip(x, lo, hi, *a, **kw)

    def round(self, x, decimals=0, *a, **kw):
        if isinstance(x, Sym):
            return x.__round__(decimals)
        return numpy.round(x, decimals, *a, **kw)

    around = round

    def where(self, cond, *a):
        from .engine import SymBool
        if isinstance(cond, SymBool) and len(a) == 2:
            return a[0] if bool(cond) else a[1]
        return numpy.where(cond, *a)

    # ---- array construction: a float dtype cannot hold proxies, keep them as objects
    def _arr(self, fn, x, *a, **kw):
        dt = kw.get("dtype", a[0] if a else None)
        if dt is not None and self._has_sym(x) and dt in (float, numpy.float64, numpy.float32, "float", "float64", "d"):
            kw = dict(kw)
            kw["dtype"] = object
            return fn(x, *a[1:], **kw)
        return fn(x, *a, **kw)

    def array(self, x, *a, **kw):
        return self._arr(numpy.array, x, *a, **kw)

    def asarray(self, x, *a, **kw):
        return self._arr(numpy.asarray, x, *a, **kw)

    # ---- predicates that NumPy cannot evaluate on object arrays
    @staticmethod
    def _has_sym(*xs):
        for x in xs:
            if isinstance(x, Sym):
                return True
            if isinstance(x, (list, tuple)) and any(NpShim._has_sym(y) for y in x):
                return True
            if isinstance(x, numpy.ndarray) and x.dtype == object:
                return True
        return False

    # ---- element-wise functions: NumPy's object loops call x.sqrt() etc., which plain floats stored
    # in an object array do not have; apply the scalar function element by element instead
    def _ew(self, name, x, *a, **kw):
        fn = getattr(numpy, name)
        if isinstance(x, Sym):
            return _SCALAR[name](x)
        if not self._has_sym(x):
            return fn(x, *a, **kw)
        arr = numpy.asarray(x, dtype=object)
        out = numpy.empty(arr.shape, dtype=object)
        for idx in numpy.ndindex(arr.shape):
            v = arr[idx]
            out[idx] = _SCALAR[name](v) if isinstance(v, Sym) else fn(v)
        if name in ("isfinite", "isnan", "isinf"):
            return out.astype(bool)
        return out

    # ---- float arrays that the code fills in afterwards: they may receive proxies, so they are
    # created as object arrays holding Python floats (same arithmetic, no float() coercion)
    @staticmethod
    def _float_dtype(dt):
        return dt is None or dt in (float, numpy.float64, numpy.float32, "float", "float64", "d")

    def zeros(self, shape, dtype=None, *a, **kw):
        if self._float_dtype(dtype):
            return numpy.full(shape, 0.0, dtype=object)
        return numpy.zeros(shape, dtype, *a, **kw)

    def ones(self, shape, dtype=None, *a, **kw):
        if self._float_dtype(dtype):
            return numpy.full(shape, 1.0, dtype=object)
        return numpy.ones(shape, dtype, *a, **kw)

    def empty(self, shape, dtype=None, *a, **kw):
        if self._float_dtype(dtype):
            return numpy.full(shape, 0.0, dtype=object)
        return numpy.empty(shape, dtype, *a, **kw)

    def full(self, shape, fill_value, dtype=None, *a, **kw):
        if isinstance(fill_value, Sym) or (self._float_dtype(dtype) and isinstance(fill_value, (float, numpy.floating))):
            return numpy.full(shape, fill_value, dtype=object)
        return numpy.full(shape, fill_value, dtype, *a, **kw)

    def zeros_like(self, x, dtype=None, *a, **kw):
        if self._has_sym(x) and self._float_dtype(dtype):
            return numpy.full(numpy.shape(x), 0.0, dtype=object)
        return numpy.zeros_like(x, dtype, *a, **kw)

    def ones_like(self, x, dtype=None, *a, **kw):
        if self._has_sym(x) and self._float_dtype(dtype):
            return numpy.full(numpy.shape(x), 1.0, dtype=object)
        return numpy.ones_like(x, dtype, *a, **kw)

    def full_like(self, x, fill_value, dtype=None, *a, **kw):
        if (self._has_sym(x) or isinstance(fill_value, Sym)) and self._float_dtype(dtype):
            return numpy.full(numpy.shape(x), fill_value, dtype=object)
        return numpy.full_like(x, fill_value, dtype, *a, **kw)

    def isclose(self, a, b, rtol=1e-05, atol=1e-08, equal_nan=False):
        if not self._has_sym(a, b):
            return numpy.isclose(a, b, rtol=rtol, atol=atol, equal_nan=equal_nan)

        def one(x, y):
            if is_inf(x) or is_inf(y):
                return (not isinstance(x, Sym)) and (not isinstance(y, Sym)) and x == y
            return abs(x - y) <= atol + rtol * abs(y)

        xa = a if isinstance(a, (list, tuple, numpy.ndarray)) else None
        xb = b if isinstance(b, (list, tuple, numpy.ndarray)) else None
        if xa is None and xb is None:
            return one(a, b)
        n = len(xa) if xa is not None else len(xb)
        return SymBoolArray([one(xa[i] if xa is not None else a, xb[i] if xb is not None else b) for i in range(n)])

    def allclose(self, a, b, rtol=1e-05, atol=1e-08, equal_nan=False):
        r = self.isclose(a, b, rtol, atol, equal_nan)
        return r.all() if hasattr(r, "all") else bool(r)



_SCALAR = {
    "sqrt": lambda x: x.sqrt(), "log": lambda x: x.log(), "log2": lambda x: x.log2(), "exp": lambda x: x.exp(),
    "sin": lambda x: x.sin(), "cos": lambda x: x.cos(), "abs": abs, "absolute": abs, "fabs": abs,
    "floor": lambda x: x.floor(), "ceil": lambda x: x.ceil(), "square": lambda x: x * x,
    "sign": lambda x: x.sign(), "negative": lambda x: -x,
    "isfinite": lambda x: True, "isnan": lambda x: False, "isinf": lambda x: False,
}


def _mk_ew(name):
    def f(self, x, *a, **kw):
        return self._ew(name, x, *a, **kw)
    f.__name__ = name
    return f


for _n in _SCALAR:
    setattr(NpShim, _n, _mk_ew(_n))


class SymBoolArray:
    """result of an element-wise predicate on proxies"""

    def __init__(self, items):
        self.items = list(items)

    def any(self):
        for x in self.items:
            if bool(x):
                return True
        return False

    def all(self):
        for x in self.items:
            if not bool(x):
                return False
        return True

    def __iter__(self):
        return iter(self.items)

    def __len__(self):
        return len(self.items)

    def __getitem__(self, i):
        return self.items[i]

    def __bool__(self):
        if len(self.items) != 1:
            raise ValueError("The truth value of an array with more than one element is ambiguous. Use a.any() or a.all()")
        return bool(self.items[0])


_installed = {}
import builtins as _builtins

_MISSING = object()


def _is_fp_proxy(x):
    return type(x).__name__ == "SymFP"


class _FloatMeta(type):
    def __instancecheck__(cls, obj):
        return isinstance(obj, _builtins.float) or (isinstance(obj, Sym) and not obj.e.is_int()) or _is_fp_proxy(obj)


class FloatShim(_builtins.float, metaclass=_FloatMeta):
    """`float` as seen by the PyXAB modules: the conversion of a value that already is a Python float is the identity, so a
    proxy (real-valued, or a z3 floating-point term) is handed back unchanged; everything else goes to the builtin"""

    def __new__(cls, x=0.0):
        if isinstance(x, Sym) or _is_fp_proxy(x):
            return x
        return _builtins.float(x)


class _IntMeta(type):
    def __instancecheck__(cls, obj):
        return isinstance(obj, _builtins.int) or (isinstance(obj, Sym) and obj.e.is_int())


class IntShim(_builtins.int, metaclass=_IntMeta):
    """`int` as seen by the PyXAB modules: truncation towards zero of a real-valued proxy (one fork on the sign)"""

    def __new__(cls, x=0, *a):
        if isinstance(x, Sym) and not a:
            if x.e.is_int():
                return x
            return x.floor() if x >= 0 else x.ceil()
        return _builtins.int(x, *a)


def install_conversions(mods):
    """only the `float` / `int` conversions (used by the floating-point lemma runs, which keep the real numpy)"""
    for name, m in mods.items():
        for k, v in (("float", FloatShim), ("int", IntShim)):
            if k not in vars(m):
                setattr(m, k, v)


def install(mods, which=None):
    """replace `math` / `np` in the PyXAB modules by the shims"""
    ms, ns = MathShim(), NpShim()
    for name, m in mods.items():
        if which is not None and name not in which:
            continue
        saved = {}
        for k, v in (("float", FloatShim), ("int", IntShim)):
            if k not in vars(m) or vars(m)[k] in (FloatShim, IntShim):
                saved[k] = _MISSING
                setattr(m, k, v)
        if hasattr(m, "math") and isinstance(m.math, types.ModuleType):
            saved["math"] = m.math
            m.math = ms
        if hasattr(m, "np") and isinstance(m.np, types.ModuleType):
            saved["np"] = m.np
            m.np = ns
        if saved:
            _installed[name] = (m, saved)


def uninstall():
    for name, (m, saved) in list(_installed.items()):
        for k, v in saved.items():
            if v is _MISSING:
                if k in vars(m):
                    delattr(m, k)
            else:
                setattr(m, k, v)
        del _installed[name]


class ConcreteRNG:
    """context manager: numpy.random.* read the active context's tape (concrete mode)"""

    NAMES = ["randint", "uniform", "choice", "normal", "default_rng", "RandomState"]

    def __enter__(self):
        self.saved = {k: getattr(numpy.random, k) for k in self.NAMES}
        sh = RandomShim()
        for k in self.NAMES:
            setattr(numpy.random, k, getattr(sh, k))
        return self

    def __exit__(self, *a):
        for k, v in self.saved.items():
            setattr(numpy.random, k, v)


# ------------------------------------------------------------------ environment (C14)
class EnvShim:
    """time / random / os / uuid / datetime: every call returns a fresh arbitrary value"""

    def __init__(self, name):
        self._name = name

    def __getattr__(self, k):
        name = "%s.%s" % (self._name, k)

        def f(*a, **kw):
            return ctx().env_value(name)

        return f


def env_id(obj=None):
    return ctx().env_int("id")


def env_hash(obj=None):
    return ctx().env_int("hash")


_env_installed = []


def install_env(mods):
    """replace non-NumPy sources of nondeterminism that a PyXAB module can reach through its
    globals: modules time/random/os/uuid/datetime/secrets if imported there, builtins id/hash"""
    for name, m in mods.items():
        for k in ("time", "random", "os", "uuid", "datetime", "secrets"):
            if hasattr(m, k) and isinstance(getattr(m, k), types.ModuleType):
                _env_installed.append((m, k, getattr(m, k), True))
                setattr(m, k, EnvRandomModule("random") if k == "random" else EnvShim(k))
        for k, f in (("id", env_id), ("hash", env_hash)):
            had = k in m.__dict__
            _env_installed.append((m, k, m.__dict__.get(k), had))
            setattr(m, k, f)


def uninstall_env():
    while _env_installed:
        m, k, v, had = _env_installed.pop()
        if had:
            setattr(m, k, v)
        else:
            try:
                delattr(m, k)
            except AttributeError:
                pass
