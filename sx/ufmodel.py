"""Transcendental functions as uninterpreted functions with axioms instantiated for exactly the
terms that occur (DESIGN §C17).  Landmark values are obtained by calling the real NumPy/libm
function, so the axioms speak about the doubles the code actually uses."""
import math

import numpy as np
import z3

from . import engine as eng
from .engine import Sym, rv, toz

R = z3.RealSort()
UF = {n: z3.Function(n, R, R) for n in ("sin", "cos", "exp", "log", "log2")}
POW = z3.Function("pow", R, R, R)

_occ = {"exp": [], "log": [], "log2": [], "pow": [], "sin": [], "cos": []}
AXIOMS_USED = set()


def reset():
    for k in _occ:
        _occ[k] = []


def _real(e):
    return z3.ToReal(e) if e.is_int() else e


def _uf(name, x):
    E = eng.engine()
    a = _real(x.e)
    t = UF[name](a)
    ax = []
    if name in ("sin", "cos"):
        ax += [t <= 1, t >= -1]
        AXIOMS_USED.add("|%s| <= 1" % name)
    elif name == "exp":
        e1, em1 = rv(np.exp(1.0)), rv(np.exp(-1.0))
        ax += [t > 0, z3.Implies(a <= 0, t <= 1), z3.Implies(a >= 0, t >= 1), z3.Implies(a <= 1, t <= e1),
               z3.Implies(a >= -1, t >= em1), z3.Implies(a <= -1, t <= em1), z3.Implies(a >= 1, t >= e1)]
        for (a2, t2) in _occ["exp"]:
            ax += [z3.Implies(a <= a2, t <= t2), z3.Implies(a >= a2, t >= t2)]
        AXIOMS_USED.add("exp > 0, monotone between occurring arguments and the landmarks -1, 0, 1 (values from np.exp)")
    elif name in ("log", "log2"):
        if x <= 0:
            raise ValueError("math domain error: log of a non-positive symbolic value")
        if name == "log":
            inv_e = rv(1 / np.e)
            ax += [z3.Implies(a <= 1, t <= 0), z3.Implies(a >= 1, t >= 0), z3.Implies(a < 1, t < 0), z3.Implies(a > 1, t > 0),
                   z3.Implies(a <= inv_e, t <= rv(np.log(1 / np.e))), z3.Implies(a >= inv_e, t >= rv(np.log(1 / np.e)))]
        else:
            ax += [z3.Implies(a <= 1, t <= 0), z3.Implies(a >= 1, t >= 0)]
        for (a2, t2) in _occ[name]:
            ax += [z3.Implies(a <= a2, t <= t2), z3.Implies(a >= a2, t >= t2)]
        AXIOMS_USED.add("log defined for positive arguments, monotone, sign change at 1, landmark 1/e (value from np.log)")
    _occ[name].append((a, t))
    for c in ax:
        E.define(c)
    return Sym(t)


def _pow(a, b):
    E = eng.engine()
    za, zb = _real(toz(a)), _real(toz(b))
    if isinstance(a, Sym):
        if a < 0:
            raise ValueError("math domain error: pow of a negative symbolic base")
    t = POW(za, zb)
    E.define(z3.Implies(za > 0, t > 0))
    E.define(z3.Implies(za == 1, t == 1))
    AXIOMS_USED.add("pow(u, e) > 0 for u > 0; pow(1, e) = 1")
    _occ["pow"].append(((za, zb), t))
    return Sym(t)


def install():
    eng.set_uf_hook(_uf)
    eng.set_pow_hook(_pow)
