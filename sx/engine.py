"""SX — symbolic execution of the real PyXAB code by proxy values (DESIGN.md §1).

The real PyXAB functions are executed on `Sym` proxies that wrap z3 arithmetic terms.
`SymBool.__bool__` is the only place where execution forks.  Paths are explored by
deterministic re-execution: a path is identified by its list of decisions.

Nothing in this file knows about PyXAB; shims.py wires it into the PyXAB modules.
"""
import math
import os
import time
import signal
from fractions import Fraction

import numpy as np
import z3


# --------------------------------------------------------------------------- exceptions
class PathAbort(BaseException):
    """Engine control flow; BaseException so that `except Exception` never swallows it."""


class Infeasible(PathAbort):
    pass


CONCRETIZE_LIMIT = 12


class PathTimeout(PathAbort):
    pass


class HarnessError(Exception):
    """Unsupported operation on a proxy / broken harness: exit code 2, never a verdict."""


# --------------------------------------------------------------------------- helpers
def is_inf(x):
    return isinstance(x, (float, np.floating)) and math.isinf(x)


def is_nan(x):
    return isinstance(x, (float, np.floating)) and math.isnan(x)


def is_conc_num(x):
    return isinstance(x, (int, float, np.integer, np.floating, Fraction)) and not isinstance(
        x, (bool, np.bool_)
    )


def rv(x):
    """exact z3 numeral of a concrete number (the exact rational value of a double)"""
    if isinstance(x, (bool, np.bool_)):
        raise HarnessError("boolean used as number")
    if isinstance(x, (int, np.integer)):
        return z3.RealVal(int(x))
    if isinstance(x, Fraction):
        return z3.RealVal(str(x))
    if isinstance(x, (float, np.floating)):
        x = float(x)
        if math.isinf(x) or math.isnan(x):
            raise HarnessError("non-finite constant %r cannot enter a term" % x)
        return z3.RealVal(str(Fraction(x)))
    raise HarnessError("cannot convert %r to a term" % type(x))


def toz(x, like=None):
    """z3 term of a proxy or a concrete number.  Python ints next to Int terms stay Int."""
    if isinstance(x, Sym):
        return x.e
    if isinstance(x, (int, np.integer)) and not isinstance(x, (bool, np.bool_)):
        if like is not None and like.is_int():
            return z3.IntVal(int(x))
        return z3.RealVal(int(x))
    if isinstance(x, np.ndarray) and x.ndim == 0:
        return toz(x.item(), like)
    return rv(x)


def _simp(e):
    return z3.simplify(e)


def frac_of(zv):
    """Fraction of a z3 numeral (rational or algebraic -> approx)"""
    if z3.is_int_value(zv):
        return Fraction(zv.as_long())
    if z3.is_rational_value(zv):
        return Fraction(zv.numerator_as_long(), zv.denominator_as_long())
    if z3.is_algebraic_value(zv):
        a = zv.approx(30)
        return Fraction(a.numerator_as_long(), a.denominator_as_long())
    raise HarnessError("cannot read model value %s" % zv)


# --------------------------------------------------------------------------- engine
_DUMP_DIR = os.environ.get("VERIF_DUMP_QUERIES")
_DUMP_EVERY = int(os.environ.get("VERIF_DUMP_EVERY", "50"))
_DUMP_MAX = int(os.environ.get("VERIF_DUMP_MAX", "40"))
_DUMPED = 0
HEARTBEAT = [None]  # the driver's worker sets a callable: called after every solver answer


class Engine:
    """One engine per worker process; `explore` runs a harness function over all paths."""

    def __init__(self, timeout_ms=5000, logic=None, path_wall_s=120):
        self.timeout_ms = timeout_ms
        self.logic = logic
        self.path_wall_s = path_wall_s
        self.solver = None
        # cumulative statistics
        self.n_queries = 0
        self.n_feas = 0
        self.n_valid = 0
        self.n_unknown = 0
        self.solver_s = 0.0
        self.n_paths = 0
        self.n_decisions = 0
        self.n_model_shortcuts = 0
        self._mk_solver()

    # ---- solver plumbing
    def _mk_solver(self):
        self.solver = z3.SolverFor(self.logic) if self.logic else z3.Solver()
        self.solver.set("timeout", self.timeout_ms)

    def _check(self, *extra):
        t = time.time()
        self.n_queries += 1
        r = self.solver.check(*extra)
        self.solver_s += time.time() - t
        if r == z3.unknown:
            self.n_unknown += 1
        if HEARTBEAT[0] is not None:
            HEARTBEAT[0]()
        if _DUMP_DIR and self.n_queries % _DUMP_EVERY == 0:
            self._dump(extra, r)
        return r

    def _dump(self, extra, r):
        """tools/solver_diff.py: every k-th query is written out as SMT-LIB2 together with the verdict
        this engine acted on, so that other solvers (cvc5, the distribution's older z3) can be run on
        exactly the same formula."""
        global _DUMPED
        if _DUMPED >= _DUMP_MAX:
            return
        _DUMPED += 1
        s = z3.Solver()
        s.add(*self.pc)
        s.add(*extra)
        path = os.path.join(_DUMP_DIR, "q-%d-%06d.smt2" % (os.getpid(), self.n_queries))
        with open(path, "w") as f:
            f.write("; expected: %s\n" % r)
            f.write(s.to_smt2())

    # ---- path life cycle
    def start(self, prefix):
        self.solver.reset()
        self.solver.set("timeout", self.timeout_ms)
        self.prefix = list(prefix)
        self.taken = []
        self.pc = []
        self.model = None  # a model of the current PC, when one is known
        self.nvars = 0
        self.inputs = []  # (name, kind, term/or None, meta) in creation order
        self.maybe_infeasible = False
        self.alts = []  # alternatives discovered on this path
        self.events = []
        self.fn_cache = {}  # (function name, argument term id) -> (argument term, result): sqrt/floor/ceil are functions

    def _add(self, c):
        self.solver.add(c)
        self.pc.append(c)

    def _model_says(self, cond):
        """True/False if the cached model decides cond, None if no model."""
        if self.model is None:
            return None
        try:
            v = self.model.eval(cond, model_completion=True)
        except z3.Z3Exception:
            return None
        if z3.is_true(v):
            return True
        if z3.is_false(v):
            return False
        return None

    def sat(self, cond):
        """is PC ∧ cond satisfiable?  returns 'sat' / 'unsat' / 'unknown'"""
        self.n_feas += 1
        ms = self._model_says(cond)
        if ms is True:
            self.n_model_shortcuts += 1
            return "sat"
        r = self._check(cond)
        if r == z3.sat:
            return "sat"
        if r == z3.unsat:
            return "unsat"
        return "unknown"

    def fresh_name(self, name):
        self.nvars += 1
        return "%s!%d" % (name, self.nvars)

    # ---- inputs (recorded so that a model can be turned into a replay file)
    def fresh_real(self, name, lo=None, hi=None):
        v = z3.Real(self.fresh_name(name))
        s = Sym(v)
        self.inputs.append((str(v), "real", v, name))
        if lo is not None:
            self.assume(v >= toz(lo))
        if hi is not None:
            self.assume(v <= toz(hi))
        return s

    def fresh_int(self, name, lo=None, hi=None):
        v = z3.Int(self.fresh_name(name))
        s = Sym(v)
        self.inputs.append((str(v), "int", v, name))
        if lo is not None:
            self.assume(v >= toz(lo, v))
        if hi is not None:
            self.assume(v <= toz(hi, v))
        return s

    def fresh_bool(self, name):
        v = z3.Bool(self.fresh_name(name))
        self.inputs.append((str(v), "bool", v, name))
        return SymBool(v)

    def aux_real(self, name):
        """auxiliary (defined) variable, not an input"""
        return z3.Real(self.fresh_name(name))

    def aux_int(self, name):
        return z3.Int(self.fresh_name(name))

    def assume(self, c):
        if isinstance(c, SymBool):
            c = c.e
        if isinstance(c, (bool, np.bool_)):
            if not c:
                raise Infeasible()
            return
        self._add(c)
        if self.model is not None and self._model_says(c) is not True:
            self.model = None

    def define(self, c):
        """assumption that introduces a defined auxiliary (sqrt, ceil...) — always
        satisfiable by construction, so the PC stays satisfiable."""
        self.assume(c)

    # ---- branching
    def branch(self, cond):
        cond = _simp(cond)
        if z3.is_true(cond):
            return True
        if z3.is_false(cond):
            return False
        i = len(self.taken)
        if i < len(self.prefix):
            ch = self.prefix[i]
            if not isinstance(ch, bool):
                raise HarnessError("non-deterministic harness: decision %d is %r, expected a bool" % (i, ch))
        else:
            ms = self._model_says(cond)
            if ms is None:
                r = self._check()
                if r == z3.sat:
                    self.model = self.solver.model()
                    ms = self._model_says(cond)
                elif r == z3.unsat:
                    raise Infeasible()
            if ms is not None:
                # the side the model takes is feasible for free; ask only about the other
                self.n_model_shortcuts += 1
                other = z3.Not(cond) if ms else cond
                r = self._check(other)
                self.n_feas += 1
                if r == z3.unsat:
                    ch = ms
                else:
                    if r == z3.unknown:
                        self.alts.append((self.taken + [not ms], True))
                    else:
                        self.alts.append((self.taken + [not ms], False))
                    ch = ms
            else:
                # no model available (solver answered unknown for the PC): ask both
                rt = self._check(cond)
                rf = self._check(z3.Not(cond))
                self.n_feas += 2
                if rt == z3.unsat and rf == z3.unsat:
                    raise Infeasible()
                if rt == z3.unsat:
                    ch = False
                elif rf == z3.unsat:
                    ch = True
                else:
                    self.alts.append((self.taken + [False], rt != z3.sat or rf != z3.sat))
                    ch = True
                    if rt != z3.sat:
                        self.maybe_infeasible = True
        self.taken.append(ch)
        c = cond if ch else z3.Not(cond)
        self._add(c)
        if self.model is not None and self._model_says(c) is not True:
            self.model = None
        return ch

    def fork(self, n, label="fork", allowed=None):
        """free n-way choice (RNG outcome, schedule): every listed alternative is explored"""
        opts = list(range(n)) if allowed is None else list(allowed)
        if not opts:
            raise Infeasible()
        i = len(self.taken)
        if i < len(self.prefix):
            ch = self.prefix[i]
            if isinstance(ch, bool) or not isinstance(ch, int) or ch not in opts:
                raise HarnessError("non-deterministic harness: decision %d is %r, expected one of %r" % (i, ch, opts))
        else:
            ch = opts[0]
            for o in opts[1:]:
                self.alts.append((self.taken + [o], False))
        self.taken.append(ch)
        self.inputs.append(("%s!d%d" % (label, i), "choice", ch, label))
        return ch

    def concretize(self, term, label="idx"):
        """enumerate the feasible values of an integer term (used for __index__)"""
        term = _simp(term)
        if z3.is_int_value(term):
            return term.as_long()
        if z3.is_rational_value(term):
            f = frac_of(term)
            if f.denominator != 1:
                raise HarnessError("non-integer used as index")
            return int(f)
        i = len(self.taken)
        while True:
            if i < len(self.prefix):
                d = self.prefix[i]
                if not (isinstance(d, tuple) and d[0] == "c"):
                    raise HarnessError("non-deterministic harness at concretize")
                _, v, eq = d
            else:
                r = self._check()
                if r != z3.sat:
                    raise Infeasible()
                m = self.solver.model()
                v = int(frac_of(m.eval(term, model_completion=True)))
                eq = True
                r2 = self._check(term != v)
                if r2 != z3.unsat:
                    # an integer the path does not bound (a symbolic depth or index used as a list position) has infinitely many
                    # values: after CONCRETIZE_LIMIT of them the enumeration is cut (counted, reported as not covered)
                    excluded = 0
                    for dd in reversed(self.taken):
                        if isinstance(dd, tuple) and dd[0] == "c" and dd[2] is False:
                            excluded += 1
                        else:
                            break
                    if excluded < CONCRETIZE_LIMIT:
                        self.alts.append((self.taken + [("c", v, False)], r2 == z3.unknown))
                    else:
                        self.n_concretize_cuts = getattr(self, "n_concretize_cuts", 0) + 1
            self.taken.append(("c", v, eq))
            self._add(term == v if eq else term != v)
            self.model = None
            if eq:
                return v
            i = len(self.taken)

    # ---- assertions
    def valid(self, prop):
        """decide PC ⇒ prop.  returns ('valid', None) / ('invalid', model) / ('unknown', None)"""
        if isinstance(prop, SymBool):
            prop = prop.e
        if isinstance(prop, (bool, np.bool_)):
            if prop:
                return "valid", None
            r = self._check()
            if r == z3.sat:
                return "invalid", self.solver.model()
            return ("valid", None) if r == z3.unsat else ("unknown", None)
        self.n_valid += 1
        prop = _simp(prop)
        if z3.is_true(prop):
            return "valid", None
        neg = z3.Not(prop)
        r = self._check(neg)
        if r == z3.unsat:
            return "valid", None
        if r == z3.sat:
            return "invalid", self.solver.model()
        return "unknown", None

    def any_model(self):
        if self.model is not None:
            return self.model
        r = self._check()
        if r == z3.sat:
            self.model = self.solver.model()
            return self.model
        return None

    def model_with(self, *extra):
        r = self._check(*extra)
        if r == z3.sat:
            return self.solver.model()
        return None

    # ---- exploration
    def run_path(self, fn, prefix, maybe=False):
        """run one path; returns (status, alts) — alts are (prefix, maybe_infeasible)"""
        self.start(prefix)
        self.maybe_infeasible = maybe
        status = "done"
        old = None
        if self.path_wall_s:
            def _alarm(signum, frame):
                raise PathTimeout()
            # CPU time of this process, not wall time: a loaded machine must not look like a hang
            old = signal.signal(signal.SIGPROF, _alarm)
            # repeating: an exception raised by the handler inside a __del__ / callback is swallowed by the interpreter
            signal.setitimer(signal.ITIMER_PROF, self.path_wall_s, 2.0)
        try:
            fn(self)
        except Infeasible:
            status = "infeasible"
        except PathTimeout:
            status = "timeout"
        finally:
            if self.path_wall_s:
                signal.setitimer(signal.ITIMER_PROF, 0)
                signal.signal(signal.SIGPROF, old)
        self.n_paths += 1
        self.n_decisions += len(self.taken)
        return status, self.alts

    def explore(self, fn, max_paths=10 ** 9, roots=None, on_path=None):
        work = [(list(p), False) for p in (roots or [[]])]
        n = 0
        while work and n < max_paths:
            prefix, maybe = work.pop()
            status, alts = self.run_path(fn, prefix, maybe)
            if on_path:
                on_path(status, self)
            work.extend(alts)
            n += 1
        return n, work


# the engine the proxies talk to (one per process)
_E = None


def set_engine(e):
    global _E
    _E = e


def engine():
    if _E is None:
        raise HarnessError("no active engine")
    return _E


# --------------------------------------------------------------------------- proxies
class SymBool:
    __slots__ = ("e",)

    def __init__(self, e):
        self.e = e

    def __bool__(self):
        return engine().branch(self.e)

    def __repr__(self):
        return "SymBool(%s)" % self.e

    def __invert__(self):
        return SymBool(z3.Not(self.e))

    def __and__(self, o):
        return SymBool(z3.And(self.e, o.e if isinstance(o, SymBool) else z3.BoolVal(bool(o))))

    __rand__ = __and__

    def __or__(self, o):
        return SymBool(z3.Or(self.e, o.e if isinstance(o, SymBool) else z3.BoolVal(bool(o))))

    __ror__ = __or__


class Sym:
    """numeric proxy around a z3 Real or Int term"""

    __slots__ = ("e",)

    def __init__(self, e):
        self.e = e

    def __repr__(self):
        s = str(self.e)
        return "Sym(%s)" % (s if len(s) < 200 else s[:200] + "...")

    def __hash__(self):
        return id(self)

    def __deepcopy__(self, memo):
        return self

    def __copy__(self):
        return self

    def is_int(self):
        return self.e.is_int()

    # numpy asks for these on object arrays
    def conjugate(self):
        return self

    @property
    def real(self):
        return self

    @property
    def imag(self):
        return 0

    def __float__(self):
        raise HarnessError("float() of a symbolic value (%s): code path not covered by the shims" % self)

    def __int__(self):
        raise HarnessError("int() of a symbolic value (%s)" % self)

    def __index__(self):
        if not self.e.is_int():
            raise HarnessError("real-valued symbolic used as index")
        return engine().concretize(self.e)

    def __bool__(self):
        return bool(self != 0)

    # ---- arithmetic
    def _lift(self, o):
        if isinstance(o, np.ndarray):
            return None
        if isinstance(o, Sym):
            return o.e
        if isinstance(o, (bool, np.bool_)):
            o = int(o)
        if is_conc_num(o):
            if is_nan(o):
                raise HarnessError("NaN met in symbolic arithmetic")
            return toz(o, self.e)
        return None

    def __add__(self, o):
        if is_inf(o):
            return float(o)
        b = self._lift(o)
        if b is None:
            return NotImplemented
        return Sym(_simp(self.e + b))

    __radd__ = __add__

    def __sub__(self, o):
        if is_inf(o):
            return -float(o)
        b = self._lift(o)
        if b is None:
            return NotImplemented
        return Sym(_simp(self.e - b))

    def __rsub__(self, o):
        if is_inf(o):
            return float(o)
        b = self._lift(o)
        if b is None:
            return NotImplemented
        return Sym(_simp(b - self.e))

    def __mul__(self, o):
        if is_inf(o):
            return self._times_inf(o)
        b = self._lift(o)
        if b is None:
            return NotImplemented
        return Sym(_simp(self.e * b))

    __rmul__ = __mul__

    def _times_inf(self, o):
        if self > 0:
            return float(o)
        if self < 0:
            return -float(o)
        return float("nan")

    @staticmethod
    def _real(e):
        return z3.ToReal(e) if e.is_int() else e

    def __truediv__(self, o):
        if is_inf(o):
            return 0.0
        b = self._lift(o)
        if b is None:
            return NotImplemented
        if isinstance(o, Sym):
            if o == 0:
                raise ZeroDivisionError("division by a symbolic value that can be zero")
        elif o == 0:
            raise ZeroDivisionError("division by zero")
        return Sym(_simp(self._real(self.e) / self._real(b)))

    def __rtruediv__(self, o):
        b = self._lift(o)
        if is_inf(o):
            if self > 0:
                return float(o)
            if self < 0:
                return -float(o)
            raise ZeroDivisionError("inf / symbolic zero")
        if b is None:
            return NotImplemented
        if self == 0:
            raise ZeroDivisionError("division by a symbolic value that can be zero")
        return Sym(_simp(self._real(b) / self._real(self.e)))

    def __floordiv__(self, o):
        if isinstance(o, (int, np.integer)) and o > 0 and self.e.is_int():
            return Sym(_simp(self.e / z3.IntVal(int(o))))
        q = self / o
        return q.floor() if isinstance(q, Sym) else math.floor(q)

    def __mod__(self, o):
        if isinstance(o, (int, np.integer)) and o > 0 and self.e.is_int():
            return Sym(_simp(self.e % z3.IntVal(int(o))))
        raise HarnessError("symbolic % unsupported")

    def __neg__(self):
        return Sym(_simp(-self.e))

    def __pos__(self):
        return self

    def __abs__(self):
        return Sym(_simp(z3.If(self.e >= 0, self.e, -self.e)))

    def __pow__(self, o):
        if isinstance(o, (float, np.floating)) and float(o).is_integer():
            o = int(o)
        if isinstance(o, (int, np.integer)) and -12 <= o < 0:
            return 1 / (self ** (-int(o)))
        if isinstance(o, (int, np.integer)) and 0 <= o <= 12:
            r = z3.RealVal(1) if not self.e.is_int() else z3.IntVal(1)
            for _ in range(int(o)):
                r = r * self.e
            return Sym(_simp(r))
        if isinstance(o, (float, np.floating)) and float(o) == 0.5:
            return self.sqrt()
        h = _POW_HOOK[0]
        if h is not None:
            return h(self, o)
        raise HarnessError("symbolic ** %r unsupported" % (o,))

    def __rpow__(self, o):
        h = _POW_HOOK[0]
        if h is not None:
            return h(o, self)
        raise HarnessError("%r ** symbolic unsupported" % (o,))

    # ---- comparisons
    def _cmp(self, o, f, ifposinf, ifneginf):
        if is_inf(o):
            return ifposinf if o > 0 else ifneginf
        if is_nan(o):
            return False
        b = self._lift(o)
        if b is None:
            return NotImplemented
        return SymBool(_simp(f(self.e, b)))

    def __ge__(self, o):
        return self._cmp(o, lambda a, b: a >= b, False, True)

    def __gt__(self, o):
        return self._cmp(o, lambda a, b: a > b, False, True)

    def __le__(self, o):
        return self._cmp(o, lambda a, b: a <= b, True, False)

    def __lt__(self, o):
        return self._cmp(o, lambda a, b: a < b, True, False)

    def __eq__(self, o):
        if o is None:
            return False
        return self._cmp(o, lambda a, b: a == b, False, False)

    def __ne__(self, o):
        if o is None:
            return True
        return self._cmp(o, lambda a, b: a != b, True, True)

    # ---- functions numpy dispatches to on object arrays (np.sqrt(obj) -> obj.sqrt())
    def sqrt(self):
        E = engine()
        if self < 0:
            # np.sqrt gives nan (with a warning), math.sqrt raises; both are failures
            raise ValueError("math domain error: sqrt of a negative symbolic value")
        arg = _simp(self._real(self.e))
        key = ("sqrt", arg.get_id())
        if key in E.fn_cache:
            return E.fn_cache[key][1]
        y = E.aux_real("sqrt")
        E.define(z3.And(y >= 0, y * y == arg))
        r = Sym(y)
        E.fn_cache[key] = (arg, r)
        return r

    def ceil(self):
        if self.e.is_int():
            return self
        a = _simp(self.e)
        if z3.is_to_real(a) or z3.is_int_value(a) or (z3.is_rational_value(a) and a.denominator_as_long() == 1):
            return Sym(a)  # already integer valued
        return CeilSym(a)

    __ceil__ = ceil

    def floor(self):
        if self.e.is_int():
            return self
        E = engine()
        arg = _simp(self.e)
        if z3.is_to_real(arg) or z3.is_int_value(arg):
            return Sym(arg)
        key = ("floor", arg.get_id())
        if key in E.fn_cache:
            return E.fn_cache[key][1]
        k = E.aux_int("floor")
        E.define(z3.And(z3.ToReal(k) <= arg, arg < z3.ToReal(k) + 1))
        r = Sym(z3.ToReal(k))
        E.fn_cache[key] = (arg, r)
        return r

    __floor__ = floor

    def __round__(self, ndigits=None):
        """round half up (Python rounds half to even: ties differ only on a measure-zero set)"""
        k = 10 ** int(ndigits or 0)
        r = (self * k + 0.5).floor() / k
        return r if ndigits is not None else r

    def rint(self):
        return self.__round__()

    def sign(self):
        if self > 0:
            return 1.0
        if self < 0:
            return -1.0
        return 0.0

    def square(self):
        return self * self

    def fabs(self):
        return abs(self)

    absolute = fabs

    def _uf(self, name):
        h = _UF_HOOK[0]
        if h is None:
            raise HarnessError("%s of a symbolic value: no transcendental model installed" % name)
        return h(name, self)

    def log(self):
        return self._uf("log")

    def log2(self):
        return self._uf("log2")

    def exp(self):
        return self._uf("exp")

    def sin(self):
        return self._uf("sin")

    def cos(self):
        return self._uf("cos")


class CeilSym(Sym):
    """ceil(x) kept lazy: `n >= ceil(x)  ⇔  n >= x` for integer n needs no Int variable"""

    __slots__ = ("arg", "_e")

    def __init__(self, arg):
        self.arg = _simp(arg)
        self._e = None

    @property
    def e(self):
        if self._e is None:
            E = engine()
            key = ("ceil", self.arg.get_id())
            if key in E.fn_cache:
                self._e = E.fn_cache[key][1]
            else:
                k = E.aux_int("ceil")
                E.define(z3.And(z3.ToReal(k) - 1 < self.arg, self.arg <= z3.ToReal(k)))
                self._e = z3.ToReal(k)
                E.fn_cache[key] = (self.arg, self._e)
        return self._e

    @staticmethod
    def _isint(o):
        return isinstance(o, (int, np.integer)) or (
            isinstance(o, (float, np.floating)) and math.isfinite(o) and float(o).is_integer()
        )

    def __le__(self, o):  # ceil(x) <= n  <=>  x <= n
        if self._isint(o):
            return SymBool(_simp(self.arg <= rv(o)))
        return Sym.__le__(self, o)

    def __gt__(self, o):  # ceil(x) > n  <=>  x > n
        if self._isint(o):
            return SymBool(_simp(self.arg > rv(o)))
        return Sym.__gt__(self, o)

    def __ge__(self, o):  # ceil(x) >= n <=> x > n-1
        if self._isint(o):
            return SymBool(_simp(self.arg > rv(o) - 1))
        return Sym.__ge__(self, o)

    def __lt__(self, o):  # ceil(x) < n <=> x <= n-1
        if self._isint(o):
            return SymBool(_simp(self.arg <= rv(o) - 1))
        return Sym.__lt__(self, o)

    def __eq__(self, o):  # ceil(x) == n <=> n-1 < x <= n
        if self._isint(o):
            return SymBool(_simp(z3.And(self.arg > rv(o) - 1, self.arg <= rv(o))))
        return Sym.__eq__(self, o)

    def __ne__(self, o):
        if self._isint(o):
            return SymBool(_simp(z3.Not(z3.And(self.arg > rv(o) - 1, self.arg <= rv(o)))))
        return Sym.__ne__(self, o)

    __hash__ = Sym.__hash__

    def __repr__(self):
        return "CeilSym(%s)" % self.arg


_UF_HOOK = [None]
_POW_HOOK = [None]


def set_uf_hook(h):
    _UF_HOOK[0] = h


def set_pow_hook(h):
    _POW_HOOK[0] = h


# --------------------------------------------------------------------------- term helpers for harnesses
def zmax(a, b):
    """merged max over proxies / concrete numbers (no forking)"""
    if not isinstance(a, Sym) and not isinstance(b, Sym):
        return a if a >= b else b
    if is_inf(a) or is_inf(b):
        x, o = (a, b) if is_inf(a) else (b, a)
        return float(x) if x > 0 else o
    za, zb = toz(a), toz(b)
    return Sym(_simp(z3.If(za >= zb, za, zb)))


def zmin(a, b):
    if not isinstance(a, Sym) and not isinstance(b, Sym):
        return a if a <= b else b
    if is_inf(a) or is_inf(b):
        x, o = (a, b) if is_inf(a) else (b, a)
        return float(x) if x < 0 else o
    za, zb = toz(a), toz(b)
    return Sym(_simp(z3.If(za <= zb, za, zb)))
