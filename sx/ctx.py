"""Execution contexts handed to harness functions.

SymCtx   — symbolic run of one path (inputs are proxies, checks are validity queries)
ConcCtx  — concrete replay of a recorded input vector on the *unshimmed* code
           (inputs are Python floats/ints, checks are evaluated in float arithmetic)

A harness is a function run(ctx, cfg) that only talks to PyXAB and to this API, so the very
same code produces the symbolic verdict and the concrete replay of a counterexample.
"""
import math
import sys
from fractions import Fraction

import numpy as np
import os
import z3

from . import engine as eng
from .engine import Sym, SymBool, HarnessError, PathAbort, Infeasible, toz, rv, frac_of

REL_TOL = 1e-9
ABS_TOL = Fraction(1, 10 ** 9)  # symbolic equalities: |a-b| <= 1e-9 (two float evaluations of one real expression may differ by an ulp)
MARGIN = Fraction(1, 64)


EPS = Fraction(1, 1024)


EPS_FINE = Fraction(1, 2 ** 44)  # second level: far above one ulp for values of moderate size, for paths that hinge on a tiny tolerance


def strengthen(e, positive=True, eps_q=None):
    """push a path-condition formula away from ties: every order atom gets a margin EPS, so that a
    model of the result drives the float run down the same path (used only to *pick* models)"""
    k = e.decl().kind() if z3.is_app(e) else None
    eps = rv(EPS if eps_q is None else eps_q)
    if k == z3.Z3_OP_NOT:
        return strengthen(e.arg(0), not positive, eps_q)
    if k in (z3.Z3_OP_AND, z3.Z3_OP_OR):
        parts = [strengthen(c, positive, eps_q) for c in e.children()]
        conj = (k == z3.Z3_OP_AND) == positive
        return z3.And(*parts) if conj else z3.Or(*parts)
    if k in (z3.Z3_OP_LE, z3.Z3_OP_GE, z3.Z3_OP_LT, z3.Z3_OP_GT):
        a, b = e.arg(0), e.arg(1)
        if a.is_int() and b.is_int():
            return e if positive else z3.Not(e)
        less = k in (z3.Z3_OP_LE, z3.Z3_OP_LT)
        if less == positive:
            return a <= b - eps
        return a >= b + eps
    if k == z3.Z3_OP_EQ and z3.is_arith(e.arg(0)):
        a, b = e.arg(0), e.arg(1)
        if positive:
            return e
        if a.is_int() and b.is_int():
            return z3.Not(e)
        return z3.Or(a >= b + eps, a <= b - eps)
    return e if positive else z3.Not(e)


class PathEnd(PathAbort):
    """the harness ends the path early (after an exception in the code under test)"""


class TapeEnd(PathAbort):
    """concrete replay of a counterexample ran past the recorded inputs (normal: the symbolic
    path was cut at the failing assertion)"""


class ReplayMismatch(Exception):
    """the concrete run asked for inputs in a different order than the symbolic one"""


def _is_sym(x):
    return isinstance(x, (Sym, SymBool))


class Violation:
    def __init__(self, label, detail, inputs, exc=None, nice=True):
        self.label = label
        self.detail = detail
        self.inputs = inputs  # list of [name, kind, value] in creation order
        self.exc = exc
        self.nice = nice  # the model's real inputs are small dyadic rationals (the float replay is then meaningful)

    def to_json(self):
        return {"label": self.label, "detail": self.detail, "inputs": self.inputs, "exc": self.exc, "nice": self.nice}


class BaseCtx:
    symbolic = False

    def __init__(self):
        self.failures = []  # (label, detail, exc)
        self.n_checks = 0
        self.n_checks_symbolic = 0
        self.log = []
        self.counters = {}
        self.obs = []
        self.rng_log = []
        self.ended_by_exception = False
        self.own_exceptions = False  # only C01 treats exceptions of the code under test as failures

    def observe(self, key, v):
        """record an output of the code under test; symbolic and concrete runs must agree"""
        if isinstance(v, (list, tuple)):
            for i, x in enumerate(v):
                self.obs.append(("%s[%d]" % (key, i), x))
        else:
            self.obs.append((key, v))

    def count(self, k, n=1):
        self.counters[k] = self.counters.get(k, 0) + n

    def note(self, *a):
        if len(self.log) < 200:
            self.log.append(" ".join(str(x) for x in a))

    # helpers common to both modes
    def call(self, label, fn, *a, **kw):
        """call code under test; any Exception is a failure 'exception:<label>' and ends the path"""
        try:
            return fn(*a, **kw)
        except HarnessError:
            raise
        except ReplayMismatch:
            raise
        except Exception as ex:  # noqa — BaseException (engine control flow) passes through
            self.ended_by_exception = True
            self.exc_info = "%s in %s: %s" % (type(ex).__name__, label, str(ex)[:300])
            if self.own_exceptions:
                self._exception(label, ex)
            else:
                self.count("path_ended_by_exception_in_code_under_test(owned_by_C01):%s:%s" % (label, type(ex).__name__))
            raise PathEnd()

    def soft_call(self, fn, *a, **kw):
        """call code under test; returns (True, value) or (False, exception) without ending the path"""
        try:
            return True, fn(*a, **kw)
        except HarnessError:
            raise
        except ReplayMismatch:
            raise
        except Exception as ex:  # noqa
            return False, ex

    def is_finite_number(self, x):
        if isinstance(x, Sym):
            return True
        if isinstance(x, (bool, np.bool_)):
            return False
        if isinstance(x, (int, float, np.integer, np.floating)):
            return math.isfinite(float(x))
        return False


# ============================================================================ symbolic
class SymCtx(BaseCtx):
    symbolic = True

    def __init__(self, E, budget=None, known_labels=None):
        super().__init__()
        self.E = E
        self.known_labels = known_labels if known_labels is not None else set()
        self.candidates = []  # Violation objects (to be replayed by the driver)
        self.unknown_checks = []
        self.budget = budget or {}
        self._seen_labels = set()
        self.repeats = []

    # ---- inputs
    def real(self, name, lo=None, hi=None):
        return self.E.fresh_real(name, lo, hi)

    def int(self, name, lo=None, hi=None):
        return self.E.fresh_int(name, lo, hi)

    def choose(self, n, label="choose", allowed=None):
        return self.E.fork(n, label, allowed)

    def assume(self, c):
        self.E.assume(c)

    # ---- RNG contract stubs (DESIGN §1.3)
    def rng_randint(self, lo, hi):
        if hi - lo <= 0:
            raise ValueError("low >= high")
        v = lo + self.E.fork(hi - lo, "randint")
        self.rng_log.append(("randint", v, lo, hi))
        return v

    def rng_uniform(self, a, b):
        u = self.E.fresh_real("uniform")
        self.rng_log.append(("uniform", u))
        # documented contract: a value in [a,b] (end points included, and a>b tolerated like numpy)
        za, zb = toz(a), toz(b)
        self.E.assume(z3.Or(z3.And(u.e >= za, u.e <= zb), z3.And(u.e <= za, u.e >= zb)))
        return u

    def rng_choice(self, a, p):
        n = len(a) if hasattr(a, "__len__") else int(a)
        items = list(a) if hasattr(a, "__len__") else list(range(n))
        if p is None:
            return items[self.E.fork(n, "choice")]
        p = list(p)
        self.last_choice_p = p
        if len(p) != n:
            raise ValueError("'a' and 'p' must have same size")
        tot = sum(p)
        if any(_is_sym(x) for x in p):
            raise HarnessError("symbolic probabilities")
        if any(x < 0 for x in p):
            raise ValueError("probabilities are not non-negative")
        if abs(float(tot) - 1.0) > math.sqrt(np.finfo(np.float64).eps):
            raise ValueError("probabilities do not sum to 1")
        allowed = [i for i in range(n) if p[i] > 0]
        k = self.E.fork(n, "choice", allowed)
        self.rng_log.append(("choice", k, p))
        return items[k]

    def rng_normal(self, loc, scale):
        return self.E.fresh_real("normal")

    def env_value(self, name):
        return self.E.fresh_real("env:" + name)

    def env_int(self, name):
        return self.E.fresh_int("env:" + name)

    def env_choice(self, n, name):
        """arbitrary environment integer in range(n): a free n-way choice, every value explored"""
        return self.E.fork(n, "env:" + name)

    def forks_so_far(self):
        return len(self.E.alts)

    # ---- assertions
    def _inputs_from_model(self, m):
        out = []
        for name, kind, term, label in self.E.inputs:
            if kind == "choice":
                out.append([name, kind, term])
            elif kind == "bool":
                out.append([name, kind, bool(z3.is_true(m.eval(term, model_completion=True)))])
            else:
                v = frac_of(m.eval(term, model_completion=True))
                out.append([name, kind, [str(v.numerator), str(v.denominator)]])
        return out

    def _nice_model(self, neg=None, margin_terms=None, strict_only=False):
        """try to get a counterexample whose real inputs are small dyadic rationals, which lies
        strictly inside the path (no ties) and violates the property by a margin; fall back to
        any model (unless strict_only)"""
        E = self.E
        s = E.solver
        tries = []
        dy = []
        try:
            strong = self._consistent_strengthening()
        except z3.Z3Exception:
            strong = None
        for name, kind, term, label in E.inputs:
            if kind == "real":
                k = z3.Int("dy!" + name)
                dy.append(z3.And(term * 1024 == z3.ToReal(k), term <= 4096, term >= -4096))
        strong_fine = None
        if strong is not None and (margin_terms is not None or neg is not None):
            # a path that hinges on a tiny tolerance (x*(1+1e-12) against x) has no model with the coarse margin unless the
            # coordinates are huge, where the float replay is meaningless: try a fine margin in the moderate range first
            try:
                keep = (getattr(self, "tie_risk", False), getattr(self, "tie_atom", None))
                strong_fine = self._consistent_strengthening(EPS_FINE)
                self.tie_risk, self.tie_atom = keep
            except z3.Z3Exception:
                strong_fine = None
        if strong is not None:
            if margin_terms is not None:
                tries.append([margin_terms] + strong + dy)
                if strong_fine is not None:
                    tries.append([margin_terms] + strong_fine + dy)
                tries.append([margin_terms] + strong)
            if neg is not None:
                tries.append([neg] + strong + dy)
                if strong_fine is not None:
                    tries.append([neg] + strong_fine + dy)
                tries.append([neg] + strong)
            else:
                tries.append(strong + dy)
                tries.append(strong)
        if strict_only:
            tries = tries or [None]
        else:
            if margin_terms is not None:
                tries.append([margin_terms] + dy)
                tries.append([margin_terms])
            if neg is not None:
                tries.append([neg] + dy)
                tries.append([neg])
            else:
                tries.append(dy)
                tries.append([])
        if tries == [None] or (strict_only and getattr(self, "tie_risk", False)):
            return None
        old = E.timeout_ms
        for i, extra in enumerate(tries):
            s.set("timeout", min(old, 3000) if i < len(tries) - 1 else old)
            E.n_queries += 1
            r = s.check(*extra)
            if os.environ.get("VERIF_DEBUG_MODEL"):
                print("nice_model try %d/%d -> %s (fine=%s)" % (i, len(tries), r, strong_fine is not None), flush=True)
            if r == z3.sat:
                m = s.model()
                s.set("timeout", old)
                self.last_model_nice = (not dy) or any(x is dy[0] for x in extra)
                return m
        s.set("timeout", old)
        return None

    def _consistent_strengthening(self, eps_q=None):
        """margin versions of the path-condition atoms, minus those that cannot hold with a margin
        (inherent ties such as max(a*a, (-a)*(-a))), found through unsat cores"""
        E = self.E
        s = E.solver
        strong = [(i, strengthen(c, True, eps_q)) for i, c in enumerate(E.pc)]
        strong = [(i, c) for i, c in strong if not c.eq(E.pc[i])]
        # one representative per distinct atom
        seen = {}
        for i, c in strong:
            seen.setdefault(c.sexpr(), (i, c))
        strong = list(seen.values())
        s.set("timeout", min(E.timeout_ms, 3000))
        removed = []
        for _ in range(40):
            if not strong:
                break
            inds = {z3.Bool("st!%d" % i): c for i, c in strong}
            s.push()
            try:
                for b, c in inds.items():
                    s.add(z3.Implies(b, c))
                E.n_queries += 1
                r = s.check(*inds.keys())
                if r == z3.sat:
                    break
                if r == z3.unknown:
                    removed += strong
                    strong = []
                    break
                core = set(str(x) for x in s.unsat_core())
            finally:
                s.pop()
            if not core:
                removed += strong
                strong = []
                break
            removed += [(i, c) for i, c in strong if "st!%d" % i in core]
            strong = [(i, c) for i, c in strong if "st!%d" % i not in core]
        # an atom dropped although it could hold with a margin on its own means the model may sit on a
        # tie of that atom: such a model must not be used to cross-validate engine and code
        # (an atom whose margin version is unsatisfiable on its own, like a*a <= (-a)*(-a) - eps, is a
        # tautological tie: both float outcomes are equivalent; a tie forced by other path atoms is not)
        self.tie_risk = False
        if removed:
            scratch = z3.Solver()
            scratch.set("timeout", 1000)
            for i, c in removed:
                E.n_queries += 1
                if scratch.check(c) != z3.unsat:
                    self.tie_risk = True
                    self.tie_atom = c
                    break
        s.set("timeout", E.timeout_ms)
        return [c for i, c in strong]

    def _record(self, label, detail, model, exc=None):
        key = (label, exc)
        self.count("fail:" + label)
        if key in self._seen_labels:
            return
        self._seen_labels.add(key)
        self.candidates.append(Violation(label, detail, self._inputs_from_model(model), exc, nice=getattr(self, "last_model_nice", True)))
        self.last_model_nice = True

    def _exception(self, label, ex):
        lab = "exception:" + label
        exc = type(ex).__name__
        if (lab, exc) in self.known_labels:
            self.repeat_fail(lab, exc)
            return
        m = self._nice_model()
        if m is None:
            self.unknown_checks.append(lab)
            return
        self._record(lab, "%s: %s" % (exc, str(ex)[:300]), m, exc)

    def repeat_fail(self, label, exc=None):
        self.count("fail:" + label)
        self.repeats.append((label, exc))

    def fail(self, label, detail=None):
        """unconditional failure on this path (structural assertion evaluated by the harness)"""
        self.n_checks += 1
        if (label, None) in self.known_labels or (label, None) in self._seen_labels:
            self.repeat_fail(label)
            return False
        m = self._nice_model()
        if m is None:
            self.unknown_checks.append(label)
            return False
        self._record(label, detail, m)
        return False

    def check(self, label, cond, detail=None, margin=None):
        """PC ⇒ cond ?"""
        self.n_checks += 1
        if isinstance(cond, (bool, np.bool_)):
            if cond:
                return True
            return self.fail(label, detail)
        if isinstance(cond, SymBool):
            cond = cond.e
        self.n_checks_symbolic += 1
        self.count("sym:" + label.split(":")[0])
        st, m = self.E.valid(cond)
        if st == "valid":
            return True
        if st == "unknown":
            self.unknown_checks.append(label)
            return None
        if (label, None) in self.known_labels or (label, None) in self._seen_labels:
            self.repeat_fail(label)
            return False
        m2 = self._nice_model(neg=z3.Not(cond), margin_terms=margin)
        if m2 is None:
            self.last_model_nice = False
        self._record(label, detail, m2 or m)
        return False

    def holds(self, cond):
        """is cond implied by the path condition? (no failure is recorded)"""
        if isinstance(cond, (bool, np.bool_)):
            return bool(cond)
        st, _ = self.E.valid(cond)
        return st == "valid"

    def same(self, a, b):
        """bit-identical: the same term (same operations on the same inputs)"""
        if _is_sym(a) and _is_sym(b):
            return bool(a.e.eq(b.e))
        if _is_sym(a) or _is_sym(b):
            return False
        return float(a) == float(b)

    def check_eq(self, label, a, b, detail=None):
        if not _is_sym(a) and not _is_sym(b):
            return self.check(label, _conc_eq(a, b), detail)
        if eng.is_inf(a) or eng.is_inf(b):
            return self.check(label, False, (detail or "") + " [finite vs infinite]")
        za, zb = toz(a), toz(b)
        d = za - zb
        tol = rv(ABS_TOL)
        return self.check(label, z3.And(d <= tol, d >= -tol), detail, margin=z3.Or(d >= rv(MARGIN), d <= -rv(MARGIN)))

    def check_ge(self, label, a, b, detail=None):
        """a >= b"""
        if not _is_sym(a) and not _is_sym(b):
            return self.check(label, bool(a >= b - _tol(a, b)), detail)
        if eng.is_inf(a):
            return self.check(label, bool(a > 0), detail)
        if eng.is_inf(b):
            return self.check(label, bool(b < 0), detail)
        za, zb = toz(a), toz(b)
        return self.check(label, za >= zb - rv(ABS_TOL), detail, margin=za <= zb - rv(MARGIN))

    def check_in(self, label, x, lo, hi, detail=None):
        if not self.is_finite_number(x):
            return self.check(label, False, "%s: not a finite number: %r" % (detail, x))
        if not _is_sym(x) and not _is_sym(lo) and not _is_sym(hi):
            return self.check(label, bool(lo <= x <= hi), detail)
        zx, zl, zh = toz(x), toz(lo), toz(hi)
        return self.check(label, z3.And(zl <= zx, zx <= zh), detail)


def _tol(a, b):
    return REL_TOL * max(1.0, abs(float(a)) if math.isfinite(float(a)) else 1.0, abs(float(b)) if math.isfinite(float(b)) else 1.0)


def _conc_eq(a, b):
    fa, fb = float(a), float(b)
    if math.isinf(fa) or math.isinf(fb):
        return fa == fb
    if math.isnan(fa) or math.isnan(fb):
        return False
    return abs(fa - fb) <= _tol(fa, fb)


# ============================================================================ concrete
class ConcCtx(BaseCtx):
    """replays a recorded input vector: every request pops the next recorded value"""

    symbolic = False

    def __init__(self, inputs, complete=False):
        super().__init__()
        self.tape = list(inputs)
        self.pos = 0
        self.complete = complete  # True: the tape belongs to a finished path

    def _next(self, kind):
        if self.pos >= len(self.tape):
            if self.complete:
                raise ReplayMismatch("tape exhausted (wanted %s)" % kind)
            raise TapeEnd()
        name, k, v = self.tape[self.pos]
        if k != kind:
            raise ReplayMismatch("tape has %s %s, code wanted %s" % (k, name, kind))
        self.pos += 1
        return v

    @staticmethod
    def _num(v):
        return float(Fraction(int(v[0]), int(v[1])))

    def real(self, name, lo=None, hi=None):
        x = self._num(self._next("real"))
        if (lo is not None and x < lo) or (hi is not None and x > hi):
            raise ReplayMismatch("input %s=%r outside its declared range after rounding" % (name, x))
        return x

    def int(self, name, lo=None, hi=None):
        v = self._next("int")
        return int(Fraction(int(v[0]), int(v[1])))

    def choose(self, n, label="choose", allowed=None):
        return int(self._next("choice"))

    def assume(self, c):
        if not bool(c):
            raise ReplayMismatch("assumption false on concrete values")

    def rng_randint(self, lo, hi):
        v = lo + int(self._next("choice"))
        self.rng_log.append(("randint", v, lo, hi))
        return v

    def rng_uniform(self, a, b):
        u = self._num(self._next("real"))
        lo_, hi_ = (a, b) if a <= b else (b, a)
        if u < lo_:
            u = lo_
        if u > hi_:
            u = hi_
        self.rng_log.append(("uniform", u))
        return u

    def rng_choice(self, a, p):
        n = len(a) if hasattr(a, "__len__") else int(a)
        items = list(a) if hasattr(a, "__len__") else list(range(n))
        if p is not None:
            p = list(p)
            self.last_choice_p = p
            # numpy's own argument validation
            if len(p) != n:
                raise ValueError("'a' and 'p' must have same size")
            if any(x < 0 for x in p):
                raise ValueError("probabilities are not non-negative")
            if abs(float(sum(p)) - 1.0) > math.sqrt(np.finfo(np.float64).eps):
                raise ValueError("probabilities do not sum to 1")
        k = int(self._next("choice"))
        self.rng_log.append(("choice", k, p))
        return items[k]

    def rng_normal(self, loc, scale):
        return self._num(self._next("real"))

    def env_value(self, name):
        return self._num(self._next("real"))

    def env_int(self, name):
        v = self._next("int")
        return int(Fraction(int(v[0]), int(v[1])))

    def env_choice(self, n, name):
        return int(self._next("choice"))

    def forks_so_far(self):
        return 0

    # ---- assertions: evaluated in float arithmetic
    def _exception(self, label, ex):
        self.failures.append(("exception:" + label, "%s: %s" % (type(ex).__name__, str(ex)[:300]), type(ex).__name__))

    def fail(self, label, detail=None):
        self.n_checks += 1
        self.failures.append((label, detail, None))
        return False

    def check(self, label, cond, detail=None, margin=None):
        self.n_checks += 1
        if bool(cond):
            return True
        self.failures.append((label, detail, None))
        return False

    def holds(self, cond):
        return bool(cond)

    def same(self, a, b):
        return float(a) == float(b)

    def check_eq(self, label, a, b, detail=None):
        return self.check(label, _conc_eq(a, b), detail)

    def check_ge(self, label, a, b, detail=None):
        fa, fb = float(a), float(b)
        return self.check(label, fa >= fb - _tol(fa, fb), detail)

    def check_in(self, label, x, lo, hi, detail=None):
        if not self.is_finite_number(x):
            return self.check(label, False, "%s: not a finite number: %r" % (detail, x))
        # containment is exact in floating point for midpoints, linspace boundaries and clamped uniform draws (lemmas L-mid,
        # L-kary; the RNG contract): the float oracle allows two ulps of the coordinate, not the 1e-9 of real-valued equalities
        # (seed S-C01-7: an absolute 1e-12 margin pushed cells out of the box)
        t = 4.5e-16 * abs(float(x))
        return self.check(label, lo - t <= x <= hi + t, detail)
