import argparse, os, sys
def main():
    ap = argparse.ArgumentParser()
    ap.add_argument("prop")
    ap.add_argument("--tier", default=os.environ.get("VERIF_TIER", "quick"))
    ap.add_argument("--only", default=None)
    ap.add_argument("--replay", default=None)
    a = ap.parse_args()
    seed = int(os.environ.get("VERIF_SEED", "0") or 0)
    here = os.path.dirname(os.path.dirname(os.path.abspath(__file__)))
    sys.path.insert(0, here)
    from sx import driver
    if a.replay:
        sys.exit(driver.replay_file(a.replay))
    try:
        rc = driver.run_harness(a.prop.lower(), a.tier, seed, a.only)
    except Exception:
        import traceback; traceback.print_exc()
        rc = 2
    sys.exit(rc)
main()
