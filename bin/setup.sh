#!/bin/sh
# Build the overlay venv /verif/.venv (git-ignored) on top of /venv, offline.
# Idempotent; called by MANIFEST.setup_cmd and lazily by bin/check.
set -e
V=/verif/.venv
HERE=$(cd "$(dirname "$0")/.." && pwd)
V="$HERE/.venv"
if [ -x "$V/bin/python" ] && "$V/bin/python" -c "import z3, numpy, jsonschema" 2>/dev/null; then
  exit 0
fi
rm -rf "$V"
/venv/bin/python -m venv "$V"
SP=$("$V/bin/python" -c "import sysconfig; print(sysconfig.get_paths()['purelib'])")
printf "import site; site.addsitedir('/venv/lib/python3.12/site-packages')\n" > "$SP/_venv_overlay.pth"
PIP_NO_INDEX=1 "$V/bin/python" -m pip install -q --no-index --find-links /opt/veriftools/wheels z3-solver cvc5 jsonschema >/dev/null
"$V/bin/python" -c "import z3, numpy, jsonschema; print('overlay venv ok: z3', z3.get_version_string(), 'numpy', numpy.__version__)"
