"""C16 — algorithms see the domain only through the partition (affine equivariance)."""
from fractions import Fraction

from harness import c01, c14
from harness.common import sym_box, arity
from harness.runlevel import build
from sx import shims
from sx.engine import Sym

PROPERTY = "C16"
ASSUMPTIONS = [
    "product run inside one path: instance A on the box [lo,hi], instance B on [a*lo+b, a*hi+b] with the translation b a solver variable and the scaling a a concrete positive constant from {1, 2, 1/4, 3, 1/1000}; same reward terms; the RNG draws of A are replayed for B with uniform draws mapped through x -> a*x+b (same seed, affine image of the split points); z3 proves p_B = a*p_A + b for every pull and for get_last_point",
    "decided in real arithmetic; the property's bit-exact clause for power-of-two scalings is covered only by lemma L-scale (thorough tier: the real Binary / DimensionBinary split run on z3 FloatingPoint proxies on [lo,hi] and on [2^k lo, 2^k hi], k = 1, -2, binary16, no over/underflow: every child bound and representative of the scaled box is 2^k times that of the box, bit-exactly); binary32/64 and np.linspace boundaries were not decided within 15 minutes and are outside the claim",
    "DOO with its default diameter function is checked for translations only (a = 1), the documented exception",
]
A_VALUES = [("1", Fraction(1)), ("2", Fraction(2)), ("1/4", Fraction(1, 4)), ("3", Fraction(3)), ("1/1000", Fraction(1, 1000))]
T_OF = {"T_HOO": 5, "HCT": 6, "VHCT": 3, "Zooming": 4, "POO": 4, "GPO": 4, "PCT": 4, "VPCT": 3, "DOO": 5, "SOO": 6, "StoSOO": 6, "SequOOL": 7, "StroquOOL": 6, "VROOM": 1}


def bounds(tier):
    q = 0 if tier == "quick" else 1
    return {"rounds": {k: v + q for k, v in T_OF.items()}, "scalings_a": [x[0] for x in A_VALUES], "translation_b": "symbolic",
            "partitions": "B, RB, K3, RK3, DB(d=2)", "outside": "longer runs; rounding (see assumptions)"}


def configs(tier, seed):
    q = 0 if tier == "quick" else 1
    out = []
    for algo, T in T_OF.items():
        for part, d in (("B", 1), ("RB", 1), ("K3", 1), ("RK3", 1), ("DB", 2), ("B", 2), ("K3", 2)):
            if algo == "VROOM" and (part in ("K3", "RK3", "DB") or d > 1):
                continue
            for an, a in A_VALUES:
                if (part not in ("B", "RB") or d == 2) and an not in ("2", "1/4"):
                    continue
                if algo == "DOO" and an != "1" and part != "B":
                    continue
                Tq = min(c01.rounds_override(algo, part, d, T + q, q), T + q)
                if d == 2:
                    Tq = max(2, Tq - 2)
                if algo == "Zooming" and part == "RK3":
                    Tq = 2
                params = {}
                if algo == "DOO" and an != "1":
                    params = {"delta": "user"}  # scaling only with a size-independent delta
                out.append({"name": "affine-%s-%s-d%d-T%d-a%s" % (algo, part, d, Tq, an.replace("/", "over")), "algo": algo, "part": part, "d": d, "T": Tq,
                            "a": [a.numerator, a.denominator], "params": params, "cost": Tq * 3 * d})
    out.append({"name": "twin-affine", "algo": "T_HOO", "part": "B", "d": 1, "T": 2, "a": [2, 1], "params": {}, "twin": True, "expect_fail": "twin"})
    return out


def run(ctx, cfg):
    T, d = cfg["T"], cfg["d"]
    a = Fraction(cfg["a"][0], cfg["a"][1])
    af = float(a) if not ctx.symbolic else a
    dom = sym_box(ctx, d)
    b = [ctx.real("shift%d" % i) for i in range(d)]
    dom_b = [[dom[i][0] * af + b[i], dom[i][1] * af + b[i]] for i in range(d)]
    rewards = [ctx.real("r%d" % t) for t in range(1, T + 1)]
    c = dict(cfg)
    if c.get("params", {}).get("delta") == "user":
        c["params"] = dict(c["params"], delta=lambda h: 0.5 ** h)
    # which coordinate a uniform draw belongs to: the draw lies in the box's dimension whose interval contains it;
    # d=1 (and VROOM's per-coordinate sampling in order) makes it the running coordinate index
    state = {"k": 0}

    def fmap(kind, v, args):
        if kind != "uniform":
            return v
        # args = (low, high) of the call in run B: find the coordinate whose image interval this is
        lo_b = args[0]
        idx = 0
        if d > 1:
            for i in range(d):
                if ctx.holds((lo_b - b[i]) / af >= dom[i][0]) and ctx.holds((lo_b - b[i]) / af <= dom[i][1]):
                    idx = i
        return v * af + b[idx]

    shims.rng_record()
    try:
        pa = c14.one_run(ctx, c, dom, rewards, T)
        f0 = ctx.forks_so_far()
        shims.rng_replay(fmap=fmap)
        pb = c14.one_run(ctx, c, dom_b, rewards, T, second=True, tag="affine")
        if ctx.forks_so_far() != f0:
            ctx.count("image_run_forked")
    finally:
        shims.rng_fresh()
    ctx.check("affine:length", len(pa) == len(pb))
    for k, (p, q_) in enumerate(zip(pa, pb)):
        if p is None or q_ is None or not isinstance(p, (list, tuple)) or not isinstance(q_, (list, tuple)):
            ctx.check("affine:image", (p is None) == (q_ is None), "output %d: %r vs %r" % (k + 1, p, q_))
            continue
        for i in range(min(len(p), len(q_))):
            ctx.check_eq("affine:image", q_[i], p[i] * af + b[i], "output %d coordinate %d: the run on the image box is not the image of the run on the box" % (k + 1, i))
    for k, p in enumerate(pa[:-1]):
        ctx.observe("p%d" % k, p)
    if cfg.get("twin"):
        ctx.check_eq("twin", pb[0][0], pa[0][0], "reachability witness: deliberately false")


# ---- floating-point lemma (harness/c16_fp.py): scaling a box by a power of two scales every child boundary and representative
# produced by the real Binary / DimensionBinary split bit-exactly (thorough tier, binary16)
from harness import c16_fp  # noqa: E402


def lemma_specs(tier):
    return c16_fp.specs(tier)


def run_lemma(spec):
    shims.install_conversions(shims.load_pyxab())
    return c16_fp.run_lemma(spec)


def lemma_replay(result):
    return c16_fp.replay(result)
