"""C11 — Zooming keeps the domain covered by active arms and plays the max-index arm."""
import math

from harness import c01
from harness.common import leaves, label, arity
from harness.ledger import Ledger
from harness.runlevel import drive, Observer, ExpansionRecorder, params_of
from harness.treeref import mean_of, ge, asb, fsqrt
from sx.engine import Sym

PROPERTY = "C11"
ASSUMPTIONS = [
    "the phase counter of the reference: phase i lasts 2^i rounds starting with i = 1 (rounds 1-2, 3-6, 7-14, ...), advanced after the reward of the last round of a phase",
    "index, radius and refinement test are concrete on a path except for the means (symbolic rewards); 'maximising' is proved as index(pulled) >= index(other active arm) under the path condition; ties either way",
    "containment of an arm in its cell and coverage (cells of active arms = leaves of the partition) are checked after every round on symbolic boxes and symbolic split points",
]


def bounds(tier):
    q = 0 if tier == "quick" else 1
    return {"rounds_T": "d=1: 5 (quick) / 8 (thorough) on midpoint partitions, 3/4 on random-split partitions; d=2: 3 / 5 (random split: 2)", "nu_rho": [[10, 0.9], [1, 0.9], [0.1, 0.5], [10, 0.3], [3, 0.5]],
            "partitions": "B, RB, DB, K2, K3, K4, RK3", "dimensions": [1, 2], "outside": "longer histories"}


def configs(tier, seed):
    q = 0 if tier == "quick" else 1
    out = []
    for part in ["B", "RB", "DB", "K2", "K3", "K4", "RK3"] + (["K5", "RK2"] if q else []):
        for d in (1, 2):
            if d == 2 and part not in ("B", "DB", "K3", "RB"):
                continue
            T = (5 + 3 * q) if d == 1 else (3 + 2 * q)
            T = c01.rounds_override("Zooming", part, d, T, q)
            if part in ("K4", "K5"):
                T = min(T, 4 + 2 * q)
            grid = [(10, 0.9)] + ([(1, 0.9), (0.1, 0.5), (10, 0.3), (3, 0.5)] if part in ("B", "K3") and d == 1 else [])
            for nu, rho in grid:
                out.append({"name": "zoom-%s-d%d-T%d-nu%s-rho%s" % (part, d, T, nu, rho), "algo": "Zooming", "part": part, "d": d, "T": T,
                            "params": {"nu": nu, "rho": rho}, "cost": T * arity(part, d) * d})
    for c in c01.modeb_configs(tier, ["Zooming"], parts=("B", "K3", "RB", "DB", "K4")):
        out.append(dict(c, name="zoom-" + c["name"]))
    # far into the run: phases 10-12 (rounds 1023, 2047, 4095 are phase boundaries); the concrete prefix is checked round by round
    # like every other round, the last k rounds are symbolic (seed S-C11-6: a phase table that ends after phase 11)
    for P in ((1021, 4093) if q == 0 else (1021, 2045, 4093, 8189)):
        k = 2
        c = c01._cfg("Zooming", "B", 1, P + k, {"nu": 1, "rho": 0.9}, "-P%d+%d-s0" % (P, k))
        c["name"] = "zoom-modeb-" + c["name"]
        c["prefix"] = {"P": P, "k": k, "seed": 0, "peak": 0.3, "noise": 0.25}
        c["cost"] = P
        out.append(c)
    out.append({"name": "twin-zoom", "algo": "Zooming", "part": "B", "d": 1, "T": 2, "params": {}, "twin": True, "expect_fail": "twin"})
    return out


class ZoomRef(Observer):
    def start(self, ctx, cfg, algo, dom):
        self.ctx, self.a = ctx, algo
        self.p = params_of(cfg)
        self.led = Ledger(compare=True, tag="arm")
        self.led.start(ctx, cfg, algo, dom)
        self.rec = ExpansionRecorder()
        self.rec.start(ctx, cfg, algo, dom)
        self.phase, self.next_end, self.time = 1, 2, 0
        self.check_cover(0)

    def hist(self, arm):
        return self.led.expect.get(id(arm), (arm, []))[1]

    def index(self, arm):
        rs = self.hist(arm)
        m = mean_of(rs) if rs else 0
        return m + 2 * math.sqrt(8 * self.phase / (2 + len(rs)))

    def check_cover(self, t):
        ctx, a = self.ctx, self.a
        lv = leaves(a.partition)
        cells = list(a.active_points.values())
        for arm, cell in a.active_points.items():
            p = arm.get_point()
            dom = cell.get_domain()
            for i in range(len(dom)):
                ctx.check_in("zoom:arm_in_cell", p[i], dom[i][0], dom[i][1], "round %d: arm of cell %s, coordinate %d" % (t, label(cell), i))
        for L in lv:
            n = sum(1 for c in cells if c is L)
            if n == 0:
                ctx.fail("zoom:leaf_without_arm", "round %d: leaf %s of the partition has no active arm (region lost)" % (t, label(L)))
            elif n > 1:
                ctx.fail("zoom:leaf_with_two_arms", "round %d: leaf %s has %d active arms" % (t, label(L), n))
        for c in cells:
            if not any(c is L for L in lv):
                ctx.fail("zoom:arm_on_internal_cell", "round %d: an active arm is responsible for the non-leaf cell %s" % (t, label(c)))
        ctx.count("sym:cover_checked")

    def after_pull(self, t, p):
        ctx = self.ctx
        self.rec.after_pull(t, p)
        self.led.after_pull(t, p)
        arm = self.led.pending
        self.cur = arm
        if arm is None:
            ctx.fail("zoom:not_an_active_arm", "round %d: the returned point is not an active arm" % t)
            return
        me = self.index(arm)
        for other in self.a.active_points:
            if other is not arm:
                ctx.check("zoom:max_index", asb(ge(me, self.index(other))), "round %d: an active arm with a larger index exists" % t)
        ctx.observe("p%d" % t, p)

    def after_reward(self, t, r):
        ctx, a = self.ctx, self.a
        calls = self.rec.calls_in(t)
        cell_before = None
        arm = self.cur
        self.rec.after_reward(t, r)
        self.led.after_reward(t, r)
        if arm is None:
            return
        # reference clock
        self.time += 1
        if self.time >= self.next_end:
            self.phase += 1
            self.next_end += 2 ** self.phase
        pulls = len(self.hist(arm))
        radius = math.sqrt(8 * self.phase / (2 + pulls))
        refined = [c for c in calls]
        ctx.check("zoom:at_most_one_refinement", len(refined) <= 1, "round %d: %d cells refined" % (t, len(refined)))
        if refined:
            cell = refined[0]["cell"]
            h = cell.get_depth()
            ctx.check("zoom:refined_leaf", refined[0]["was_leaf"], "round %d" % t)
            ctx.check("zoom:refine_rule", radius <= self.p["nu"] * self.p["rho"] ** h + 1e-12, "round %d: cell %s refined although radius %.6g > nu*rho^h = %.6g" % (t, label(cell), radius, self.p["nu"] * self.p["rho"] ** h))
            now = a.active_points.get(arm)
            ctx.check("zoom:arm_handed_to_child", now is not None and now.get_parent() is cell, "round %d: after refining %s the pulled arm is not responsible for one of its children" % (t, label(cell)))
            for ch in cell.get_children():
                if ch is now:
                    continue
                arms = [x for x, c in a.active_points.items() if c is ch]
                if len(arms) != 1:
                    continue  # reported by check_cover
                x = arms[0]
                fresh = a.pulled_times[x] == 0 and all(ctx.same(u, v) or ctx.holds(u == v) for u, v in zip(x.get_point(), ch.get_cpoint()))
                ctx.check("zoom:new_arm_at_centre", fresh, "round %d: child %s did not receive a fresh arm at its centre" % (t, label(ch)))
        else:
            cell = a.active_points.get(arm)
            if cell is not None:
                h = cell.get_depth()
                ctx.check("zoom:refine_rule", radius > self.p["nu"] * self.p["rho"] ** h - 1e-12, "round %d: cell %s not refined although radius %.6g <= nu*rho^h = %.6g" % (t, label(cell), radius, self.p["nu"] * self.p["rho"] ** h))
        self.check_cover(t)


def run(ctx, cfg):
    ob = ZoomRef()
    algo, dom, rs, lp = drive(ctx, cfg, [ob], last_point=False)
    if cfg.get("twin"):
        ctx.check_ge("twin", rs[0], rs[1], "reachability witness: deliberately false")
