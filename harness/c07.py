"""C07 — simple-regret algorithms recommend their best evaluated candidate."""
from harness import c01
from harness.common import all_nodes, label, arity, sym_box
from harness.ledger import Ledger, same_term
from harness.runlevel import drive, Observer, build, params_of, algo_class, partitions_of
from harness.stubs import make_stub
from harness.treeref import mean_of
from sx.engine import Sym, is_inf

PROPERTY = "C07"
ASSUMPTIONS = [
    "the harness keeps its own ledger of (point object, reward term) pairs; 'was actually evaluated' means object identity with a point returned by an earlier pull",
    "'not exceeded' is proved as reward(recommended) >= reward(other) for every other evaluated search point under the path condition (which includes the comparisons made inside get_last_point); no tie-break is demanded",
    "rewards are unconstrained reals: all-negative, all-equal and tied histories are part of the solver's search space",
    "wrappers (POO/GPO/PCT/VPCT) are driven with recording stub learners; their scores are recomputed by the harness from the rewards it delivered",
]
T_OF = {"DOO": (6, 8), "SOO": (7, 9), "SequOOL": (8, 10), "StoSOO": (7, 10)}


def bounds(tier):
    q = 0 if tier == "quick" else 1
    return {"rounds_T": {k: v[q] for k, v in T_OF.items()}, "StroquOOL": "whole run for n in {100, 200}" + (" and 400" if q else ""),
            "POO": "stub learners, %d rounds, rhomax in {0.84,0.9,0.95}" % (40 if q == 0 else 80), "GPO/PCT/VPCT": "stub learners, whole budget n in {100,101,150}, rhomax in {0.5,0.7,0.9}",
            "get_last_point": "queried after every round for DOO, SOO, SequOOL, StoSOO (read-only), at the end for the others",
            "outside": "longer histories; other budgets"}


def configs(tier, seed):
    q = 0 if tier == "quick" else 1
    out = []
    parts = ["B", "RB", "DB", "K3", "RK3"] + (["K2", "K4", "RK2"] if q else [])
    for algo, Ts in T_OF.items():
        for part in parts:
            for d in (1, 2):
                if d == 2 and part not in ("B", "DB", "K3"):
                    continue
                T = Ts[q] if d == 1 else max(3, Ts[q] - 2)
                T = c01.rounds_override(algo, part, d, T, q)
                params = {}
                if algo == "SequOOL":
                    params = {"n": 12}
                out.append({"name": "rec-%s-%s-d%d-T%d" % (algo, part, d, T), "algo": algo, "part": part, "d": d, "T": T, "params": params,
                            "cost": T * d * arity(part, d)})
    # the same runs with a recommendation query between every pull and its receive_reward (a legal call order: a user peeking
    # at the incumbent while the evaluation is running); the query after the round must still be the best evaluated point
    for algo, Ts in T_OF.items():
        if algo in ("DOO", "SOO", "SequOOL", "StoSOO"):
            for part in ("B", "K3"):
                T = c01.rounds_override(algo, part, 1, Ts[q], q)
                out.append({"name": "rec-%s-%s-d1-T%d-peek" % (algo, part, T), "algo": algo, "part": part, "d": 1, "T": T, "params": {"n": 12} if algo == "SequOOL" else {},
                            "peek": True, "cost": T * arity(part, 1)})
    out.append({"name": "rec-StoSOO-B-d1-T9-k1-hmax2", "algo": "StoSOO", "part": "B", "d": 1, "T": 9, "params": {"k": 1, "h_max": 2}})
    out.append({"name": "rec-StoSOO-K3-d1-T6-k1-hmax1", "algo": "StoSOO", "part": "K3", "d": 1, "T": 6, "params": {"k": 1, "h_max": 1}})
    out.append({"name": "rec-StoSOO-B-d1-T7-k3", "algo": "StoSOO", "part": "B", "d": 1, "T": 7, "params": {"k": 3}})
    out.append({"name": "rec-SequOOL-B-d1-T10-n10", "algo": "SequOOL", "part": "B", "d": 1, "T": 10 if q else 9, "params": {"n": 10}})
    for n, T in ((100, 6), (200, 18)) + (((400, 40),) if q else ()):
        for part in ("B", "RB"):
            out.append({"name": "rec-StroquOOL-%s-n%d" % (part, n), "algo": "StroquOOL", "part": part, "d": 1, "T": T, "params": {"n": n}, "mode": "stroquool", "cost": T * 3})
    for rm in (0.84, 0.9, 0.95):
        for base in ("T_HOO", "HCT"):
            out.append({"name": "rec-POO-stub-%s-rhomax%s" % (base, rm), "algo": "POO", "mode": "poo", "part": "B", "d": 1, "T": 40 if q == 0 else 80,
                        "params": {"rhomax": rm, "base": base}, "cost": 50})
    for n, rm in ((100, 0.5), (101, 0.7), (150, 0.9)) + (((300, 0.8),) if q else ()):
        for algo in ("GPO", "PCT", "VPCT"):
            out.append({"name": "rec-%s-stub-n%d-rhomax%s" % (algo, n, rm), "algo": algo, "mode": "gpo", "part": "B", "d": 1, "T": n + 3,
                        "params": {"rhomax": rm, "rounds": n}, "cost": 30})
    for c in c01.modeb_configs(tier, ["DOO", "SOO", "StoSOO", "SequOOL"]):
        out.append(dict(c, name="rec-" + c["name"]))
    for c in c01.modeb_configs(tier, ["StroquOOL"], parts=("B",)):
        out.append(dict(c, name="rec-" + c["name"], mode="stroquool"))
    out.append({"name": "twin-SOO", "algo": "SOO", "part": "B", "d": 1, "T": 3, "params": {}, "twin": True, "expect_fail": "twin"})
    return out


class Recommend(Observer):
    """after every round: get_last_point() vs the ledger"""

    def start(self, ctx, cfg, algo, dom):
        self.ctx, self.algo = ctx, algo
        self.name = type(algo).__name__
        self.led = Ledger(compare=False)
        self.led.start(ctx, cfg, algo, dom)
        self.evaluated = []  # (point object, reward, cell)
        self.peek = bool(cfg.get("peek"))

    def after_pull(self, t, p):
        self.led.after_pull(t, p)
        self.cur_p = p
        if self.peek:
            self.ctx.soft_call(self.algo.get_last_point)

    def after_reward(self, t, r):
        self.led.after_reward(t, r)
        c = self.led.pending
        root = partitions_of(self.algo)[0].get_root()
        if not (self.name == "SequOOL" and c is root):  # post-schedule pulls of the domain centre are not search points
            self.evaluated.append((self.cur_p, r, c))
        self.query(t)

    def query(self, t):
        ctx = self.ctx
        ok, lp = ctx.soft_call(self.algo.get_last_point)
        if not ok:
            ctx.count("get_last_point_raised(owned_by_C01)")
            return
        ctx.observe("rec%d" % t, lp)
        if self.name in ("DOO", "SOO", "SequOOL"):
            hit = [(p, r, c) for (p, r, c) in self.evaluated if p is lp]
            if not hit:
                ctx.fail("rec:not_an_evaluated_point", "round %d: get_last_point returned a point that was never evaluated during the search" % t)
                return
            best = hit[-1][1]
            for (p, r, c) in self.evaluated:
                if p is lp:
                    continue
                ctx.check_ge("rec:best_reward", best, r, "round %d: the recommended point's reward is exceeded by the reward of evaluated cell %s" % (t, label(c) if c is not None else "?"))
        elif self.name == "StoSOO":
            part = self.algo.partition
            deepest = [n for n in all_nodes(part) if n.get_depth() == part.get_depth()]
            who = [n for n in deepest if n.get_cpoint() is lp]
            if not who:
                ctx.fail("rec:not_deepest_level", "round %d: recommendation is not the representative of a deepest-level cell" % t)
                return

            def m(n):
                rs = self.led.expect.get(id(n), (n, []))[1]
                return mean_of(rs) if rs else 0

            for n in deepest:
                if n is not who[0]:
                    ctx.check_ge("rec:best_mean", m(who[0]), m(n), "round %d: deepest-level cell %s has a higher recorded mean" % (t, label(n)))


class StroquoolMidQuery(Observer):
    """a run may stop at any round: once the validation stage has begun, get_last_point() after every round must be a
    candidate that HAS been re-evaluated and whose validation mean is not exceeded (a query before any candidate was
    re-evaluated raises - recorded finding F-stroquool-early-query of C01 - and is skipped here)"""

    def __init__(self, led):
        self.led = led

    def start(self, ctx, cfg, algo, dom):
        self.ctx, self.algo = ctx, algo

    def after_reward(self, t, r):
        if getattr(self.algo, "end", False) or not getattr(self.algo, "candidate", None):
            return
        stroquool_recommendation(self.ctx, self.algo, self.led, "after round %d: " % t, mid=True)


def run_stroquool(ctx, cfg):
    led = Ledger(compare=False)
    algo, dom, rs, lp = drive(ctx, cfg, [led, StroquoolMidQuery(led)], last_point=False)
    if not getattr(algo, "end", False):
        ctx.count("stroquool_not_finished")
        return
    stroquool_recommendation(ctx, algo, led, "")
    ctx.count("sym:stroquool_finished")


def stroquool_recommendation(ctx, algo, led, when, mid=False):
    ok, lp = ctx.soft_call(algo.get_last_point)
    if not ok:
        return
    cands = []
    for n in algo.candidate:
        if n is not None and all(n is not x for x in cands):
            cands.append(n)

    def m(n):
        rs_ = led.expect.get(id(n), (n, []))[1]
        return mean_of(rs_) if rs_ else None

    who = [n for n in cands if n.get_cpoint() is lp]
    if not who:
        ctx.fail("rec:not_a_candidate", when + "the recommendation is not one of the re-evaluated candidates")
        return
    mw = m(who[0])
    if mid:
        ctx.count("sym:stroquool_mid_validation_query")
        if mw is None and any(m(n) is not None for n in cands):
            ctx.fail("rec:not_re_evaluated", when + "the recommended candidate %s has not been re-evaluated yet although others have" % label(who[0]))
            return
    for n in cands:
        if n is who[0]:
            continue
        mn = m(n)
        if mn is None or mw is None:
            continue
        ctx.check_ge("rec:best_validation_mean", mw, mn, when + "candidate %s has a higher validation mean" % label(n))


def run_poo(ctx, cfg):
    learners = []
    p = params_of(cfg)
    Stub = make_stub(p["base"], learners)
    dom = [[0.0, 1.0]]
    algo = build(ctx, cfg, dom, base_cls=Stub)
    T = cfg["T"]
    for t in range(1, T + 1):
        ctx.call("pull", algo.pull, t)
        r = ctx.real("r%d" % t)
        ctx.call("receive_reward", algo.receive_reward, t, r)
    before = {L.idx: len(L.pulls) for L in learners}
    ok, lp = ctx.soft_call(algo.get_last_point)
    if not ok:
        return
    who = [L for L in learners if len(L.pulls) > before[L.idx] and L.pulls[-1][2] is lp]
    if len(who) != 1:
        ctx.fail("rec:not_a_learner_output", "get_last_point is not the next proposal of exactly one learner")
        return
    def score(L):
        rs = [x[2] for x in L.rewards]
        return mean_of(rs) if rs else 0
    for L in learners:
        if L is not who[0]:
            ctx.check_ge("rec:best_score", score(who[0]), score(L), "learner %d (rho=%s) has a higher mean reward than the recommending learner %d" % (L.idx, L.kw.get("rho"), who[0].idx))


def gpo_schedule(n, rhomax):
    """published schedule: N = ceil(0.5*Dmax*ln((n/2)/ln(n/2))) learners, floor(n/2N) rounds per half phase"""
    import math
    Dmax = math.log(2) / math.log(1 / rhomax)
    N = math.ceil(0.5 * Dmax * math.log((n / 2) / math.log(n / 2)))
    return N, n // (2 * N)


def run_gpo(ctx, cfg):
    from harness.common import mods
    learners = []
    name = cfg["algo"]
    p = params_of(cfg)
    dom = [[0.0, 1.0]]
    restore = None
    if name == "GPO":
        Stub = make_stub("T_HOO", learners)
        algo = build(ctx, cfg, dom, base_cls=Stub)
    else:
        m = mods()[name]
        attr = "HCT" if name == "PCT" else "VHCT"
        Stub = make_stub(attr, learners)
        restore = (m, attr, getattr(m, attr))
        setattr(m, attr, Stub)
    try:
        if name != "GPO":
            algo = build(ctx, cfg, dom)
        T = cfg["T"]
        served = []  # per round: (point object, reward)
        for t in range(1, T + 1):
            pt = ctx.call("pull", algo.pull, t)
            r = ctx.real("r%d" % t)
            ctx.call("receive_reward", algo.receive_reward, t, r)
            served.append((pt, r))
    finally:
        if restore:
            setattr(*restore)
    ok, lp = ctx.soft_call(algo.get_last_point)
    if not ok:
        ctx.count("get_last_point_raised(owned_by_C01)")
        return
    # validated points: points that were returned in rounds in which no learner was pulled for them
    proposals = {}
    for L in learners:
        for (ev, tm, pt) in L.pulls:
            proposals[id(pt)] = L
    n = p["rounds"]
    N, half = gpo_schedule(n, p["rhomax"])
    val = {}
    seen_first = set()
    for (pt, r) in served[:2 * N * half]:
        if pt is None:
            continue
        if id(pt) in seen_first:
            val.setdefault(id(pt), [pt, []])[1].append(r)
        else:
            seen_first.add(id(pt))
    if not any(lp is v[0] for v in val.values()):
        ctx.fail("rec:not_a_validated_point", "get_last_point is not a point that was re-evaluated in a validation phase")
        return
    mine = [v for v in val.values() if v[0] is lp][0]
    for v in val.values():
        if v[0] is lp or not v[1] or not mine[1]:
            continue
        # only points whose validation completed (same number of validation rewards) compete
        if len(v[1]) == len(mine[1]):
            ctx.check_ge("rec:best_validated", mean_of(mine[1]), mean_of(v[1]), "another validated point has a higher validation mean")
    ok2, p_after = ctx.soft_call(algo.pull, n + 10)
    if ok2:
        ctx.check("rec:pull_after_end_is_recommendation", p_after is lp, "after the last phase pull() does not return the recommended point")


def run(ctx, cfg):
    mode = cfg.get("mode")
    if mode == "stroquool":
        return run_stroquool(ctx, cfg)
    if mode == "poo":
        return run_poo(ctx, cfg)
    if mode == "gpo":
        return run_gpo(ctx, cfg)
    ob = Recommend()
    algo, dom, rs, lp = drive(ctx, cfg, [ob], last_point=False, stop_on_none=True)
    if len(rs) >= 1:
        ob.query(len(rs) + 1)  # once more at the end (the last pull may have grown the tree without returning a point)
    if cfg.get("twin") and len(rs) > 1:
        ctx.check_ge("twin", rs[0], rs[1], "reachability witness: deliberately false")
