"""C03 — partition tree and its per-depth node index stay mutually consistent.

mode 'index': make_children on a cell whose (depth, index) label is symbolic (LIA)
mode 'sched': every interleaving of deepen() / make_children(leaf, newlayer=leaf at deepest level)
mode 'algo' : INV after every call of every algorithm under every reward history (bounded)
"""
import z3

from harness.common import partition_class, arity, all_nodes, leaves, label, check_tree_invariant, mods
from harness.runlevel import drive, Observer, ExpansionRecorder, partitions_of
from harness import c01

PROPERTY = "C03"
PATH_BUDGET = {"thorough": 2500}
ASSUMPTIONS = [
    "mode index: the parent's index i>=1 and depth h>=0 are arbitrary integers (solver variables); label uniqueness per depth then follows by induction from the root label (0,1) (paper argument)",
    "mode sched: the solver only enumerates the finite choices (which leaf / deepen) — bounded-exhaustive exploration of all interleavings up to m operations",
    "mode algo: trees produced by the algorithms under every reward history within the C01 bounds",
]


def bounds(tier):
    return {"index": "K in 2..6, d in 1..3, all 5 classes, symbolic (h,i); plus i pinned to L, L+1, L+2 for L just below (2^31, 2^53, 2^63, 2^64)/K and 2^63+5 with every path replayed on the unshimmed code (machine-word landmarks)", "sched": "m <= %d operations" % (3 if tier == "quick" else 5),
            "algo": c01.bounds(tier)["rounds_T"]}


def configs(tier, seed):
    q = 0 if tier == "quick" else 1
    out = []
    kinds = ["B", "RB", "DB"] + ["K%d" % k for k in range(2, 7)] + ["RK%d" % k for k in range(2, 7)]
    for kind in kinds:
        for d in (1, 2, 3):
            out.append({"name": "index-%s-d%d" % (kind, d), "mode": "index", "kind": kind, "d": d, "part": kind})
    # the label arithmetic at the machine-word landmarks: the solver proves the formula over the mathematical integers; that the
    # code's integers ARE mathematical integers (Python ints, not int32/int64/float64 values that wrap or round) is validated by
    # replaying every path of these configurations on the unshimmed code with i pinned just below 2^31, 2^53, 2^63, 2^64
    for kind in kinds:
        d = 3 if kind == "DB" else 1
        K = arity(kind, d)
        for nm, L in (("2^31", (2 ** 31 - 1) // K), ("2^53", 2 ** 53 // K), ("2^63", (2 ** 63 - 1) // K), ("2^64", 2 ** 64 // K), ("2^63+", 2 ** 63 + 5)):
            for o in (0, 1, 2):
                out.append({"name": "index-%s-d%d-i~%s+%d" % (kind, d, nm, o), "mode": "index", "kind": kind, "d": d, "part": kind, "ilo": L + o, "validate_all": True})
    for kind in ["B", "RB", "DB", "K2", "K3", "RK3"] + (["K4", "RK2", "RK4"] if q else []):
        for d in (1, 2):
            if d == 2 and kind not in ("DB", "B"):
                continue
            m = (3 if d == 1 else 2) + (2 if q and d == 1 else 0) - (1 if arity(kind, d) >= 4 and not q else 0) + (0)
            out.append({"name": "sched-%s-d%d-m%d" % (kind, d, m), "mode": "sched", "kind": kind, "d": d, "m": m, "part": kind, "cost": 3 ** m})
    for c in c01.configs(tier, seed):
        if c.get("twin") or ("params" in c and c["algo"] not in ("StoSOO", "SOO", "HCT") and not c.get("prefix")):
            continue
        if c.get("prefix") and c["prefix"]["P"] > 130 and tier == "quick":
            continue  # the invariant is re-evaluated on the whole tree after every round: long prefixes only in the thorough tier
        c = dict(c, name="algo-" + c["name"], mode="algo")
        out.append(c)
    out.append({"name": "twin-index", "mode": "index", "kind": "K3", "d": 1, "part": "K3", "twin": True, "expect_fail": "twin"})
    return out


def run_index(ctx, cfg):
    kind, d = cfg["kind"], cfg["d"]
    dom = [[0.0, 1.0] for _ in range(d)]
    part = partition_class(kind)(domain=dom)
    K = arity(kind, d)
    L = cfg.get("ilo")
    i1 = ctx.int("i", 1) if L is None else ctx.int("i", L, L)
    i2 = ctx.int("i2", 1)
    h = ctx.int("h", 0)
    p1 = part.node(depth=h, index=i1, parent=None, domain=[[0.0, 1.0] for _ in range(d)])
    p2 = part.node(depth=h, index=i2, parent=None, domain=[[0.0, 1.0] for _ in range(d)])
    ctx.call("make_children", part.make_children, p1, newlayer=True)
    c1 = p1.get_children()
    ctx.check("arity", len(c1) == K)
    for j, c in enumerate(c1):
        ctx.check("child_depth", c.get_depth() == h + 1, "child %d depth" % j)
        ctx.check("child_index", c.get_index() == K * (i1 - 1) + j + 1, "child %d of cell i has index %s, expected K(i-1)+%d" % (j, c.get_index(), j + 1))
        ctx.check("child_parent", c.get_parent() is p1)
    # labels of the children of two different parents are disjoint
    ctx.call("make_children", part.make_children, p2, newlayer=True)
    c2 = p2.get_children()
    ctx.check("arity", len(c2) == K)
    ctx.assume(i1 != i2)
    for a in c1:
        for b in c2:
            ctx.check("labels_disjoint", a.get_index() != b.get_index(), "children of cells i != i' share an index")
    if cfg.get("twin"):
        ctx.check("twin", c1[0].get_index() != 4, "reachability witness: deliberately false")


def run_sched(ctx, cfg):
    kind, d, m = cfg["kind"], cfg["d"], cfg["m"]
    dom = [[0.0, 1.0] for _ in range(d)]
    part = partition_class(kind)(domain=dom)
    trace = []
    for step in range(m):
        lv = leaves(part)
        op = ctx.choose(1 + len(lv), "op")
        if op == 0:
            trace.append("deepen")
            ctx.call("deepen", part.deepen)
        else:
            leaf = lv[op - 1]
            trace.append("split" + label(leaf))
            ctx.call("make_children", part.make_children, leaf, newlayer=(leaf.get_depth() >= part.get_depth()))
        ctx.note(" ".join(trace))
        check_tree_invariant(ctx, part, "inv")
        ctx.count("sym:inv_evaluated")


class InvObserver(Observer):
    def start(self, ctx, cfg, algo, dom):
        self.ctx, self.algo = ctx, algo
        self.rec = ExpansionRecorder()
        self.rec.start(ctx, cfg, algo, dom)
        self.seen_calls = 0
        self.check("init")

    def check(self, when):
        for part in partitions_of(self.algo):
            check_tree_invariant(self.ctx, part, "inv")
        for c in self.rec.calls[self.seen_calls:]:
            if not c["was_leaf"]:
                self.ctx.fail("expand_nonleaf", "cell %s already had children when it was expanded again (round %s, %s)" % (label(c["cell"]), c["round"], c["phase"]))
            want = c["cell"].get_depth() >= c["depth_before"]
            if bool(c["newlayer"]) != want:
                self.ctx.fail("newlayer_flag", "make_children(%s, newlayer=%s) while the partition depth was %s" % (label(c["cell"]), c["newlayer"], c["depth_before"]))
        self.seen_calls = len(self.rec.calls)

    def after_pull(self, t, p):
        self.rec.after_pull(t, p)
        self.check("pull%d" % t)
        self.ctx.observe("p%d" % t, p)

    def after_reward(self, t, r):
        self.rec.after_reward(t, r)
        self.check("reward%d" % t)


def run(ctx, cfg):
    if cfg["mode"] == "index":
        return run_index(ctx, cfg)
    if cfg["mode"] == "sched":
        return run_sched(ctx, cfg)
    ob = InvObserver()
    drive(ctx, cfg, [ob])
    ob.check("end")
