"""Vocabulary shared by the harnesses: partition / algorithm factories, tree walking."""
import math

from sx import shims
from sx.engine import Sym, HarnessError

_MODS = None


def mods():
    global _MODS
    if _MODS is None:
        _MODS = shims.load_pyxab()
    return _MODS


_PART_CACHE = {}


def partition_class(kind):
    """'B', 'RB', 'DB', 'K3', 'RK4' -> a class constructible as cls(domain=..., node=...)"""
    if kind in _PART_CACHE:
        return _PART_CACHE[kind]
    m = mods()
    if kind == "B":
        c = m["BinaryPartition"].BinaryPartition
    elif kind == "RB":
        c = m["RandomBinaryPartition"].RandomBinaryPartition
    elif kind == "DB":
        c = m["DimensionBinaryPartition"].DimensionBinaryPartition
    elif kind.startswith("RK"):
        K = int(kind[2:])
        base = m["RandomKaryPartition"].RandomKaryPartition
        P_node = m["Node"].P_node

        class _RK(base):
            def __init__(self, domain=None, node=P_node):
                super().__init__(domain=domain, K=K, node=node)

        _RK.__name__ = "RandomKaryPartition"
        c = _RK
    elif kind.startswith("K"):
        K = int(kind[1:])
        base = m["KaryPartition"].KaryPartition
        P_node = m["Node"].P_node

        class _K(base):
            def __init__(self, domain=None, node=P_node):
                super().__init__(domain=domain, K=K, node=node)

        _K.__name__ = "KaryPartition"
        c = _K
    else:
        raise HarnessError("unknown partition kind " + kind)
    _PART_CACHE[kind] = c
    return c


def arity(kind, d):
    if kind in ("B", "RB"):
        return 2
    if kind == "DB":
        return 2 ** d
    if kind.startswith("RK"):
        return int(kind[2:])
    return int(kind[1:])


def is_equal_size(kind):
    return kind in ("B", "DB") or (kind.startswith("K"))


def sym_box(ctx, d, name="box"):
    """an arbitrary finite box lo_i < hi_i"""
    dom = []
    for i in range(d):
        lo = ctx.real("lo%d" % i)
        hi = ctx.real("hi%d" % i)
        ctx.assume(lo < hi)
        dom.append([lo, hi])
    return dom


def all_nodes(partition):
    """every cell reachable from the root by child links (pre-order)"""
    out = []
    stack = [partition.get_root()]
    seen = set()
    while stack:
        n = stack.pop()
        if id(n) in seen:
            continue
        seen.add(id(n))
        out.append(n)
        ch = n.get_children()
        if ch:
            stack.extend(reversed(ch))
    return out


def leaves(partition):
    return [n for n in all_nodes(partition) if not n.get_children()]


def label(n):
    return "(%s,%s)" % (n.get_depth(), n.get_index())


# ---------------------------------------------------------------- structural invariant (C03)
def check_tree_invariant(ctx, part, tag="inv"):
    """INV of DESIGN §C03 evaluated on the object graph of a partition"""
    nl = part.get_node_list()
    root = part.get_root()
    ok = True
    reach = all_nodes(part)
    reach_ids = {}
    for n in reach:
        reach_ids[id(n)] = n
    listed = {}
    for h, layer in enumerate(nl):
        for pos, n in enumerate(layer):
            if id(n) in listed:
                ok &= bool(ctx.fail(tag + ":listed_twice", "cell %s listed at depth lists %d and %d" % (label(n), listed[id(n)], h)))
            listed[id(n)] = h
            if n.get_depth() != h:
                ok &= bool(ctx.fail(tag + ":wrong_layer", "cell %s (depth %s) stored in the list of depth %d" % (label(n), n.get_depth(), h)))
            if id(n) not in reach_ids:
                ok &= bool(ctx.fail(tag + ":listed_unreachable", "cell %s in depth list %d is not reachable from the root" % (label(n), h)))
    for n in reach:
        if id(n) not in listed:
            ok &= bool(ctx.fail(tag + ":reachable_unlisted", "cell %s reachable from the root but in no depth list" % label(n)))
    if nl[0] != [root] or root.get_parent() is not None:
        ok &= bool(ctx.fail(tag + ":root", "depth-0 list is not [root]"))
    child_lists = {}
    for n in reach:
        ch = n.get_children()
        if ch is None:
            continue
        if id(ch) in child_lists:
            ok &= bool(ctx.fail(tag + ":shared_child_list", "cells %s and %s share one child list object" % (label(child_lists[id(ch)]), label(n))))
        child_lists[id(ch)] = n
        for layer in nl:
            if ch is layer:
                ok &= bool(ctx.fail(tag + ":child_list_is_layer_list", "child list of %s is the very list object used as a depth list" % label(n)))
        for j, c in enumerate(ch):
            if c.get_parent() is not n:
                ok &= bool(ctx.fail(tag + ":foreign_child", "child list of %s (%d entries) contains %s whose parent is %s" % (
                    label(n), len(ch), label(c), label(c.get_parent()) if c.get_parent() is not None else None)))
            if c.get_depth() != n.get_depth() + 1:
                ok &= bool(ctx.fail(tag + ":child_depth", "child %s of %s has wrong depth" % (label(c), label(n))))
    for n in reach:
        p = n.get_parent()
        if p is not None:
            pc = p.get_children()
            if pc is None or not any(c is n for c in pc):
                ok &= bool(ctx.fail(tag + ":orphan", "cell %s is not in its parent's child list" % label(n)))
    deepest = max(h for h, layer in enumerate(nl) if layer)
    if part.get_depth() != deepest or len(nl) != deepest + 1:
        ok &= bool(ctx.fail(tag + ":depth", "get_depth()=%s but deepest non-empty level is %d (len(node_list)=%d)" % (part.get_depth(), deepest, len(nl))))
    # labels unique per depth
    for h, layer in enumerate(nl):
        idx = [n.get_index() for n in layer]
        if all(not isinstance(i, Sym) for i in idx) and len(set(idx)) != len(idx):
            ok &= bool(ctx.fail(tag + ":duplicate_label", "depth %d has duplicate indices %s" % (h, sorted(idx))))
    # children of i carry K(i-1)+1..Ki in order
    for n in reach:
        ch = n.get_children()
        if ch:
            K = len(ch)
            i = n.get_index()
            for j, c in enumerate(ch):
                if c.get_parent() is n:
                    r = ctx.check(tag + ":child_index", c.get_index() == K * (i - 1) + j + 1,
                                  "child %d of %s has index %s, expected %s" % (j, label(n), c.get_index(), K * (i - 1) + j + 1))
                    ok &= bool(r)
    return ok
