"""C01 — the ask/tell loop is total and every proposed point lies inside the domain."""
from harness.common import arity
from harness.runlevel import drive, check_point, Observer, DEFAULTS

PROPERTY = "C01"
HANG_IS_VIOLATION = True
PATH_WALL_S = 60
REPLAY_WALL_S = 20
ASSUMPTIONS = [
    "box bounds are arbitrary reals lo<hi (the floating-point containment of midpoints is the separate lemma L-mid of C02); rewards are arbitrary finite reals",
    "parameters are taken from a finite grid inside the documented ranges; histories are bounded by T rounds (see bounds)",
    "'never hangs' is checked as: no single path exceeds the wall-clock watchdog, replayed concretely under a wall limit",
]

# rounds per algorithm (quick, thorough) — sized by measured path counts
T_OF = {
    "T_HOO": (6, 8), "HCT": (7, 10), "VHCT": (3, 4), "DOO": (6, 8), "SOO": (7, 10), "StoSOO": (7, 10),
    "SequOOL": (8, 10), "StroquOOL": (7, 8), "VROOM": (2, 3), "Zooming": (5, 7), "POO": (4, 6), "GPO": (4, 6),
    "PCT": (4, 6), "VPCT": (3, 4),
}


def bounds(tier):
    q = 0 if tier == "quick" else 1
    return {"rounds_T": {k: v[q] for k, v in T_OF.items()}, "dimensions": [1, 2] if q == 0 else [1, 2, 3],
            "partitions": "Binary, RandomBinary, DimensionBinary, Kary(K), RandomKary(K); K in {2,3}" + ("" if q == 0 else " and {4,5}"),
            "parameters": "grid listed per configuration name",
            "outside": "histories longer than T; parameters off the grid; |bounds| so large that lo+hi overflows (F-ovf)"}


def rounds_override(algo, part, d, T, q):
    """random split points multiply paths (every containment / size comparison forks)"""
    rnd = part.startswith("R")
    if algo == "Zooming" and rnd:
        return (3 if d == 1 else 2) + (1 if q and part == "RB" and d == 1 else 0)
    if algo == "DOO" and rnd:
        return min(T, 4 + q)
    if algo == "VROOM" and d > 1:
        return 1
    return T


def _cfg(algo, part, d, T, params=None, tag=""):
    name = "%s-%s-d%d-T%d%s" % (algo, part, d, T, tag)
    c = {"name": name, "algo": algo, "part": part, "d": d, "T": T, "cost": T * d * arity(part, d),
         "nonbinary": arity(part, d) != 2}
    if params:
        c["params"] = params
        for k, v in params.items():
            c[k] = v  # flat copy for known-finding matching
    if "base" not in c and algo in ("POO", "GPO"):
        c["base"] = DEFAULTS[algo]["base"]
    if algo in ("POO", "GPO", "PCT", "VPCT") and "rhomax" not in c:
        c["rhomax"] = DEFAULTS[algo]["rhomax"]
    return c


def configs(tier, seed):
    q = 0 if tier == "quick" else 1
    out = []
    parts_q = ["B", "RB", "DB", "K3", "RK3", "K2"]
    parts_t = parts_q + ["RK2", "K4", "K5", "RK4", "RK5"]
    parts = parts_q if q == 0 else parts_t
    dims = (1, 2) if q == 0 else (1, 2, 3)
    for algo, Ts in T_OF.items():
        T = Ts[q]
        for part in parts:
            for d in dims:
                if d > 1 and part not in ("B", "DB", "K3", "RB") and q == 0:
                    continue
                Td = T if d == 1 else max(2, T - 2 * (d - 1))
                Td = rounds_override(algo, part, d, Td, q)
                if algo in ("VROOM",) and d > 1 and part == "DB":
                    continue  # documented: binary-child partitions only (C13 quantifier); DB has 2^d children
                out.append(_cfg(algo, part, d, Td))
    # parameter grid
    for base in ("HCT", "VHCT"):
        for algo in ("POO", "GPO"):
            out.append(_cfg(algo, "B", 1, 3, {"base": base}, "-" + base))
    for rm in (0.3, 0.5, 0.8, 0.84, 0.95):
        out.append(_cfg("POO", "B", 1, 4, {"rhomax": rm}, "-rhomax%s" % rm))
        out.append(_cfg("GPO", "B", 1, 4, {"rhomax": rm}, "-rhomax%s" % rm))
    out.append(_cfg("PCT", "B", 1, 4, {"rhomax": 0.3}, "-rhomax0.3"))
    for nu, rho in ((1, 0.9), (0.1, 0.5), (10, 0.3)):
        out.append(_cfg("Zooming", "B", 1, 5, {"nu": nu, "rho": rho}, "-nu%s-rho%s" % (nu, rho)))
        out.append(_cfg("T_HOO", "B", 1, 5, {"nu": nu, "rho": rho}, "-nu%s-rho%s" % (nu, rho)))
        out.append(_cfg("HCT", "B", 1, 6, {"nu": nu, "rho": rho}, "-nu%s-rho%s" % (nu, rho)))
    out.append(_cfg("HCT", "B", 1, 7, {"c": 0.1}, "-c0.1"))
    # extremes of the documented parameter ranges
    for tag, pr in (("rho0.99", {"rho": 0.99}), ("rho0.01", {"rho": 0.01}), ("nu1e-3", {"nu": 1e-3}), ("nu1e3", {"nu": 1e3})):
        out.append(_cfg("T_HOO", "B", 1, 5, pr, "-" + tag))
        out.append(_cfg("HCT", "B", 1, 6, pr, "-" + tag))
        out.append(_cfg("VHCT", "B", 1, 3, pr, "-" + tag))
        out.append(_cfg("Zooming", "B", 1, 4, pr, "-" + tag))
    for tag, pr in (("c1e-3", {"c": 1e-3}), ("c5", {"c": 5.0}), ("delta0.5", {"delta": 0.5}), ("delta1e-9", {"delta": 1e-9})):
        out.append(_cfg("HCT", "B", 1, 6, pr, "-" + tag))
        out.append(_cfg("VHCT", "B", 1, 3, pr, "-" + tag))
    out.append(_cfg("VHCT", "B", 1, 3, {"bound": 1e-3}, "-bound1e-3"))
    out.append(_cfg("VHCT", "B", 1, 3, {"bound": 100.0}, "-bound100"))
    out.append(_cfg("T_HOO", "B", 1, 5, {"rounds": 100000}, "-rounds1e5"))
    out.append(_cfg("DOO", "B", 1, 3, {"delta": "user"}, "-userdelta"))
    out.append(_cfg("StoSOO", "B", 1, 6, {"k": None}, "-kdefault"))
    out.append(_cfg("StoSOO", "B", 1, 7, {"k": 3}, "-k3"))
    out.append(_cfg("SOO", "B", 1, 7, {"h_max": 8}, "-hmax8"))
    for n in (10, 11, 14) + ((17, 20) if q else ()):
        out.append(_cfg("SequOOL", "B", 1, min(n, 8 + 2 * q), {"n": n}, "-n%d" % n))
        out.append(_cfg("SequOOL", "K3", 1, min(n, 8 + 2 * q), {"n": n}, "-n%d" % n))
    for n, T in ((100, 7), (200, 10)) + (((400, 20),) if q else ()):
        out.append(_cfg("StroquOOL", "B", 1, T, {"n": n}, "-n%d" % n))
    for n, hm, T in ((4, 1, 2), (4, 2, 2), (8, 3, 1), (8, 5, 1)) + (((8, 3, 2), (16, 4, 1)) if q else ()):
        for part in ("B", "RB"):
            out.append(_cfg("VROOM", part, 1, T, {"n": n, "h_max": hm}, "-n%d-h%d" % (n, hm)))
    out.append(_cfg("VROOM", "DB", 1, 2, {"n": 4, "h_max": 3}, "-dimbin1d"))
    seen = set()
    res = []
    for c in out:
        if c["name"] not in seen:
            seen.add(c["name"])
            res.append(c)
    res.extend(modeb_configs(tier, list(T_OF)))
    res.extend(tinybox_configs(tier))
    res.append(dict(_cfg("T_HOO", "B", 1, 2), name="twin-T_HOO", twin=True, expect_fail="twin"))
    return res


def tinybox_configs(tier):
    """boxes that hold only a handful of binary64 numbers ([1e9, 1e9+1e-6]: 8 doubles; [0.1, 0.1+2^-50]: 64): after three to six
    levels a cell's rounded midpoint equals its parent's and cells have zero width - 'arbitrary finite lo < hi' includes them; only
    C01's clauses (no exception, no hang, finite points in the box) are claimed on such boxes (seed S-C01-10)"""
    q = 0 if tier == "quick" else 1
    out = []
    for bi, box in enumerate(([1e9, 1e9 + 1e-6], [0.1, 0.1 + 2.0 ** -50])):
        for algo in T_OF:
            if algo == "VROOM":
                continue
            params = {"n": 200} if algo in ("SOO", "StoSOO", "SequOOL", "StroquOOL", "DOO") else {}
            for part in ("B", "K3") + (("RB", "DB") if q else ()):
                P = 40 if q == 0 else 120
                c = _cfg(algo, part, 1, P + 1, dict(params), "-P%d+1-tinybox%d" % (P, bi))
                c["name"] = "modeb-" + c["name"]
                c["prefix"] = {"P": P, "k": 1, "seed": 0, "peak": 0.3, "noise": 0.25, "box": box}
                c["cost"] = P
                out.append(c)
    return out


class PointsInBox(Observer):
    def start(self, ctx, cfg, algo, dom):
        self.ctx, self.dom = ctx, dom

    def after_pull(self, t, p):
        if check_point(self.ctx, "pull", p, self.dom):
            self.ctx.observe("p%d" % t, p)


def run(ctx, cfg):
    ctx.own_exceptions = True
    c = dict(cfg)
    if c.get("params", {}).get("delta") == "user":
        c["params"] = dict(c["params"], delta=lambda h: 0.5 ** h)
    algo, dom, rs, lp = drive(ctx, c, [PointsInBox()])
    if check_point(ctx, "get_last_point", lp, dom):
        ctx.observe("last", lp)
    if cfg.get("twin"):
        ctx.check_ge("twin", lp[0], (dom[0][0] + dom[0][1]) / 2, "reachability witness: deliberately false")


# ---- Mode B (DESIGN §2): concrete box, concrete objective-like prefix of P rounds, k symbolic rounds
MODEB = {
    "T_HOO": [(15, {}), (40, {}), (80, {}), (127, {"rounds": 1000}), (300, {"rounds": 100000}), (24, {"nu": 0.3, "rho": 0.5}), (30, {"nu": 4, "rho": 0.5, "rounds": 1000}), (35, {"nu": 1, "rho": 0.75})],
    "HCT": [(15, {}), (31, {"c": 0.1}), (63, {"c": 0.1}), (127, {}), (255, {"c": 0.1}), (20, {"nu": 0.5, "rho": 0.6, "c": 0.2, "delta": 0.05}), (33, {"nu": 2, "rho": 0.75, "c": 0.1})],
    "VHCT": [(7, {}), (15, {"c": 0.1}), (18, {"c": 0.1, "bound": 2}), (12, {"c": 0.15, "bound": 0.5, "nu": 2, "rho": 0.6})],
    "DOO": [(12, {}), (25, {}), (14, {"delta": "user"}), (100, {"n": 1000})], "SOO": [(12, {}), (30, {}), (9, {"h_max": 3}), (100, {"n": 1000}), (60, {"n": 1000, "h_max": 5})],
    "StoSOO": [(12, {}), (30, {"k": 3}), (100, {"n": 1000}), (11, {"k": 1, "h_max": 3}), (20, {"k": None, "n": 400})],
    "SequOOL": [(62, {"n": 1000}), (113, {"n": 1000}), (12, {"n": 40}), (20, {"n": 40}), (9, {"n": 12}), (15, {"n": 20}), (24, {"n": 30})],
    "StroquOOL": [(10, {"n": 200}), (14, {"n": 200}), (3, {"n": 100}), (30, {"n": 400}), (19, {"n": 500}), (40, {"n": 1000}), (44, {"n": 1000}), (60, {"n": 3000})],
    "Zooming": [(16, {"nu": 3, "rho": 0.5}), (45, {"nu": 3, "rho": 0.5}), (40, {"nu": 1, "rho": 0.9}), (29, {"nu": 1.6, "rho": 0.75}), (61, {"nu": 1, "rho": 0.9})],
    "POO": [(10, {"rhomax": 0.9}), (12, {"rhomax": 0.84}), (30, {"rhomax": 0.9}), (13, {"rhomax": 0.95}), (78, {"rhomax": 0.9, "rounds": 80}), (150, {"rhomax": 0.9, "rounds": 1000}), (20, {"rhomax": 0.86, "rounds": 22, "base": "HCT"})],
    "GPO": [(9, {"rhomax": 0.9}), (14, {"rhomax": 0.9}), (65, {"rhomax": 0.9, "rounds": 1000}), (98, {"rhomax": 0.9, "rounds": 1000}), (48, {"rhomax": 0.5}), (21, {"rhomax": 0.8, "rounds": 129, "base": "HCT"})],
    "PCT": [(9, {"rhomax": 0.9}), (65, {"rhomax": 0.9, "rounds": 1000}), (30, {"rhomax": 0.7, "rounds": 101})], "VPCT": [(9, {"rhomax": 0.9})], "VROOM": [(3, {"n": 8, "h_max": 3})],
}


def modeb_configs(tier, algos, tag="modeb", parts=("B", "K3", "RB")):
    q = 0 if tier == "quick" else 1
    out = []
    for algo in algos:
        for (P, params) in MODEB.get(algo, []):
            for part in parts:
                if algo == "VROOM" and part == "K3":
                    continue
                for sd in (((0, 1) if q == 0 else (0, 1, 2, 3)) if part == "B" else (0,)):
                    k = 2 + q
                    if algo in ("VHCT", "VROOM"):
                        k = 1 + q
                    if algo == "Zooming" and part == "RB":
                        k = 1 + q
                    pre = {"P": P, "k": k, "seed": sd, "peak": (0.3, 0.8, 0.55, 0.1)[sd], "noise": (0.25, 0.6, 1.0, 0.0)[sd], "negative": sd == 1}
                    c = _cfg(algo, part, 1, P + k, dict(params), "-P%d+%d-s%d" % (P, k, sd))
                    c["name"] = tag + "-" + c["name"]
                    c["prefix"] = pre
                    c["cost"] = P
                    out.append(c)
    # integer-typed rewards mixed with floats (clipping to [0,1] with min/max of Python ints)
    for algo in algos:
        for (P, params) in ([(30, {})] if algo in ("T_HOO", "HCT", "VHCT") else (MODEB.get(algo, [])[1:2] or MODEB.get(algo, [])[:1])):
            k = 1
            c = _cfg(algo, "B", 1, P + k, dict(params), "-P%d+%d-clipint" % (P, k))
            c["name"] = tag + "-" + c["name"]
            c["prefix"] = {"P": P, "k": k, "seed": 5, "peak": 0.3, "noise": 0.9, "pattern": "clip_int"}
            c["cost"] = P
            out.append(c)
            # the same run on a box given with integer bounds, on a 3-ary partition and in two dimensions
            for part, d in (("K3", 1), ("B", 2)):
                if algo == "VROOM" and part == "K3":
                    continue
                c = _cfg(algo, part, d, P + k, dict(params), "-P%d+%d-intbox" % (P, k))
                c["name"] = tag + "-" + c["name"]
                c["prefix"] = {"P": P, "k": k, "seed": 6, "peak": 0.55, "noise": 0.25, "intbox": True}
                c["cost"] = P * d
                out.append(c)
    # NumPy small-integer scalars as rewards
    for algo in algos:
        for (P, params) in ([(24, {})] if algo in ("T_HOO", "HCT", "VHCT") else MODEB.get(algo, [])[:1]):
            k = 0  # no symbolic round: an object array holding NumPy integer scalars next to a proxy does not promote the way a typed array does
            c = _cfg(algo, "B", 1, P + k, dict(params), "-P%d+%d-npuint8" % (P, k))
            c["name"] = tag + "-" + c["name"]
            c["prefix"] = {"P": P, "k": k, "seed": 3, "peak": 0.3, "noise": 0.5, "pattern": "np_uint8"}
            c["cost"] = P
            out.append(c)
    # rewards with a large constant offset (-2^20) relative to their spread
    for algo in algos:
        for (P, params) in ([(40, {})] if algo in ("T_HOO", "HCT", "VHCT") else MODEB.get(algo, [])[:1]):
            k = 1
            c = _cfg(algo, "B", 1, P + k, dict(params), "-P%d+%d-offset" % (P, k))
            c["name"] = tag + "-" + c["name"]
            c["prefix"] = {"P": P, "k": k, "seed": 2, "peak": 0.55, "noise": 1.0, "offset": -1048576.0}
            c["cost"] = P
            out.append(c)
    # rising rewards: the search descends a single path, cells 17-20 levels deep after 36-40 rounds (DOO's default diameter
    # is then ~1e-10 of the root's, SOO's sweeps are 20 levels long)
    for algo, P, k in (("DOO", 32, 4), ("DOO", 37, 2), ("SOO", 40, 2)):
        if algo not in algos:
            continue
        k = k + q
        c = _cfg(algo, "B", 1, P + k, {}, "-P%d+%d-rising" % (P, k))
        c["name"] = tag + "-" + c["name"]
        c["prefix"] = {"P": P, "k": k, "seed": 0, "pattern": "rising"}
        c["cost"] = P
        out.append(c)
    return out
