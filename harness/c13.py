"""C13 — VROOM samples cells from the rank-based distribution and points inside the cell."""
import math
from fractions import Fraction

from harness.common import all_nodes, label, arity
from harness.ledger import same_term
from harness.runlevel import drive, Observer, params_of
from harness.treeref import mean_of, ge, asb

PROPERTY = "C13"
ASSUMPTIONS = [
    "np.random.choice is a stub that records the weight vector it is handed and returns an arbitrary index with positive weight (every such index is explored); 'drawn with probability 1/(h r C)' is checked as the weight vector handed to the RNG, NumPy's conformance to it is trusted",
    "descent signs (randint(2)) fork both ways, uniform draws are arbitrary values of the closed cell interval",
    "lower confidence value of the reference: mean - sqrt(ln(4 n^3/delta)/(2T)) with delta = 4b/(f_max sqrt(n)), minus infinity for unevaluated cells; 'non-increasing in it' is proved for every pair of cells of a depth under the path condition (which contains the comparisons of the sort)",
    "binary-child partitions only (quantifier of the property); weights compared with exact rationals of 1/(h*rank*C), tolerance 1e-12",
]


def bounds(tier):
    q = 0 if tier == "quick" else 1
    return {"n": [4, 8] + ([16] if q else []), "h_max": "below, equal and above the ranking depth floor(log2 n)", "rounds": "2 for n=4, 1 for n=8" + (" (2 in thorough), 1 for n=16" if q else ""),
            "partitions": "B, RB, DB (d=1), K2", "outside": "more rounds; larger budgets"}


def configs(tier, seed):
    q = 0 if tier == "quick" else 1
    out = []
    grid = [(4, 1, 2), (4, 2, 2), (4, 3, 2), (8, 2, 1), (8, 3, 1), (8, 5, 1), (4, 1, 3), (4, 2, 3), (4, 1, 4),
            (6, 2, 2), (5, 1, 2), (7, 3, 1)] + (  # budgets that are not powers of two: ranking depth floor(log2 n)
[(8, 3, 2), (16, 4, 1), (4, 3, 3)] if q else [])
    for n, hm, T in grid:
        for part in ["B", "RB", "DB", "K2"]:
            if part in ("DB", "K2") and not (n == 4 and hm == 3):
                continue
            out.append({"name": "vroom-%s-n%d-h%d-T%d" % (part, n, hm, T), "algo": "VROOM", "part": part, "d": 1, "T": T,
                        "params": {"n": n, "h_max": hm, "b": 1, "f_max": 1}, "cost": 2 ** (n // 2) * T})
    # Mode B: concrete prefix (concrete draws, objective-like rewards), then symbolic rounds
    for (n, hm, P) in ((8, 3, 5), (8, 2, 7), (12, 3, 6)) + (((16, 4, 9), (37, 4, 9)) if q else ()):
        for part in ("B", "RB"):
            for sd in (0, 1):
                k = 2
                pre = {"P": P, "k": k, "seed": sd, "peak": 0.3 if sd == 0 else 0.8, "noise": 0.4, "negative": sd == 1}
                out.append({"name": "vroom-modeb-%s-n%d-h%d-P%d+%d-s%d" % (part, n, hm, P, k, sd), "algo": "VROOM", "part": part, "d": 1, "T": P + k,
                            "params": {"n": n, "h_max": hm, "b": 1, "f_max": 1}, "prefix": pre, "cost": 2 ** hm * 4})
    for part in ("B", "RB"):
        out.append({"name": "vroom-%s-d2-n4-h3-T1" % part, "algo": "VROOM", "part": part, "d": 2, "T": 1, "params": {"n": 4, "h_max": 3, "b": 1, "f_max": 1}, "cost": 30})
    out.append({"name": "vroom-B-n4-h3-T2-b2", "algo": "VROOM", "part": "B", "d": 1, "T": 2, "params": {"n": 4, "h_max": 3, "b": 2, "f_max": 3}})
    out.append({"name": "twin-vroom", "algo": "VROOM", "part": "B", "d": 1, "T": 2, "params": {"n": 4, "h_max": 2, "b": 1, "f_max": 1}, "twin": True, "expect_fail": "twin"})
    return out


class VroomRef(Observer):
    def start(self, ctx, cfg, algo, dom):
        self.ctx, self.a = ctx, algo
        p = params_of(cfg)
        self.n, self.b, self.fmax = p["n"], p["b"], p["f_max"]
        self.hcap = min(p["h_max"], p["n"])
        self.sd = int(math.floor(math.log2(self.n)))
        self.delta = 4 * self.b / (self.fmax * math.sqrt(self.n))
        self.C = sum(Fraction(1, h * i) for h in range(1, self.sd + 1) for i in range(1, 2 ** h + 1))
        self.expect = {}
        self.part = algo.partition
        ctx.check("vroom:tree_prebuilt", self.part.get_depth() >= self.sd, "the tree was not grown to the ranking depth")
        self.n_rng = len(ctx.rng_log)
        self.had_children = set(id(x) for x in all_nodes(self.part) if x.get_children() is not None)

    def hist(self, n):
        return self.expect.get(id(n), (n, []))[1]

    def lcb(self, n):
        rs = self.hist(n)
        if not rs:
            return float("-inf")
        return mean_of(rs) - math.sqrt(math.log(4 * self.n ** 3 / self.delta) / (2 * len(rs)))

    def after_pull(self, t, p):
        ctx = self.ctx
        nl = self.part.get_node_list()
        log = ctx.rng_log[self.n_rng:]
        self.n_rng = len(ctx.rng_log)
        choice = [e for e in log if e[0] == "choice"]
        if len(choice) != 1:
            ctx.fail("vroom:one_draw_per_pull", "round %d: %d cell draws" % (t, len(choice)))
            return
        _, k, probs = choice[0]
        # ranks
        index = []
        want = []
        for h in range(1, self.sd + 1):
            layer = nl[h]
            ranks = [x.get_rank()[-1] for x in layer]
            ctx.check("vroom:ranks_permutation", sorted(ranks) == list(range(1, len(layer) + 1)) and len(layer) == 2 ** h,
                      "round %d depth %d: ranks %s are not a permutation of 1..2^h" % (t, h, ranks))
            for i, x in enumerate(layer):
                for j, y in enumerate(layer):
                    if ranks[i] < ranks[j]:
                        ctx.check("vroom:ranks_follow_lcb", asb(ge(self.lcb(x), self.lcb(y))),
                                  "round %d depth %d: %s has rank %d < rank %d of %s but a smaller lower confidence value" % (t, h, label(x), ranks[i], ranks[j], label(y)))
            for l, x in enumerate(layer):
                index.append(x)
                want.append(Fraction(1) / (h * ranks[l] * self.C))
        ok = len(probs) == len(want) and all(abs(Fraction(float(a)) - w) <= Fraction(1, 10 ** 12) for a, w in zip(probs, want))
        ctx.check("vroom:weights", ok, "round %d: the weight vector handed to the sampler is not 1/(h*rank*C)" % t)
        ctx.check("vroom:weights_sum_to_one", abs(sum(Fraction(float(a)) for a in probs) - 1) <= Fraction(1, 10 ** 9), "round %d" % t)
        ctx.count("sym:weights_checked")
        if not (0 <= k < len(index)):
            return
        cell = index[k]
        self.cell = cell
        # sampled descent
        # replay the descent from the recorded draws: a cell without children before this pull is split first
        # (one dimension draw, except for DimensionBinary), then the sign is drawn
        rints = [e for e in log if e[0] == "randint"]
        path = [cell]
        x = cell
        h = cell.get_depth()
        ri = 0
        d = len(cell.get_domain())
        draws_dim = type(self.part).__name__ != "DimensionBinaryPartition"
        while h < self.hcap:
            ch = x.get_children()
            if ch is None:
                break
            if id(x) not in self.had_children and draws_dim:
                ri += 1  # the dimension draw of make_children
            if ri >= len(rints):
                break
            x = ch[rints[ri][1]]
            ri += 1
            path.append(x)
            h += 1
        self.path = path
        ctx.check("vroom:descent_to_cap", path[-1].get_depth() == max(cell.get_depth(), self.hcap), "round %d: sampled cell at depth %d, cap %d" % (t, path[-1].get_depth(), self.hcap))
        if not isinstance(p, (list, tuple)) or len(p) != len(cell.get_domain()):
            ctx.fail("vroom:point_shape", "round %d" % t)
            return
        for i, (lo, hi) in enumerate(cell.get_domain()):
            ctx.check_in("vroom:point_in_drawn_cell", p[i], lo, hi, "round %d: coordinate %d of the point is outside the drawn cell %s" % (t, i, label(cell)))
        for i, (lo, hi) in enumerate(path[-1].get_domain()):
            ctx.check_in("vroom:point_in_sampled_descendant", p[i], lo, hi, "round %d" % t)
        ctx.observe("p%d" % t, p)

    def after_reward(self, t, r):
        ctx = self.ctx
        self.n_rng = len(ctx.rng_log)
        for x in getattr(self, "path", []):
            self.expect.setdefault(id(x), (x, []))[1].append(r)
        for x in all_nodes(self.part):
            want = self.hist(x)
            have = list(x.reward)
            ok = len(have) == len(want) and all(same_term(a, b) for a, b in zip(have, want))
            if not ok:
                ctx.fail("vroom:credit", "round %d: cell %s holds %d reward(s), the sampled path credits it with %d" % (t, label(x), len(have), len(want)))
        ctx.count("sym:credit_checked")
        self.had_children = set(id(x) for x in all_nodes(self.part) if x.get_children() is not None)


def run(ctx, cfg):
    ob = VroomRef()
    algo, dom, rs, lp = drive(ctx, cfg, [ob], last_point=False)
    if cfg.get("twin"):
        ctx.check_ge("twin", rs[0], rs[1], "reachability witness: deliberately false")
