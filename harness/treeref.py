"""Reference rules of T-HOO / HCT / VHCT written from the property text and HCT.png
(C05: index and traversal, C06: growth), evaluated on the harness' own ledger.

The reference never decides control flow of the code under test: it builds terms that the
assertions compare with what the implementation stored / did (DESIGN §2, §5a)."""
import math

import z3

from harness.common import all_nodes, label
from harness.ledger import Ledger
from harness.runlevel import Observer, ExpansionRecorder, params_of
from sx.engine import Sym, SymBool, toz, rv, zmax, is_inf

EPS = 1e-9


def t_plus(t):
    """smallest power of two >= t (exact integer arithmetic)"""
    p = 1
    while p < t:
        p *= 2
    return p


def is_pow2(t):
    return t >= 1 and t_plus(t) == t


def fsqrt(x):
    return x.sqrt() if isinstance(x, Sym) else math.sqrt(x)


def mean_of(rs):
    s = rs[0]
    for x in rs[1:]:
        s = s + x
    return s / len(rs)


def var_of(rs, floor):
    m = mean_of(rs)
    v = 0
    for x in rs:
        v = v + (x - m) * (x - m)
    v = v / len(rs)
    return zmax(v, floor) if isinstance(v, Sym) else max(v, floor)


def z_or(conds):
    """disjunction of SymBool / bool"""
    if any(isinstance(c, (bool,)) and c for c in conds):
        return True
    zs = [c.e for c in conds if isinstance(c, SymBool)]
    if not zs:
        return False
    return SymBool(z3.Or(*zs))


def z_and(conds):
    if any(isinstance(c, (bool,)) and not c for c in conds):
        return False
    zs = [c.e for c in conds if isinstance(c, SymBool)]
    if not zs:
        return True
    return SymBool(z3.And(*zs))


def ge(a, b):
    """a >= b (up to 1e-9: the reference and the code may round one real expression differently) as
    bool / SymBool, inf-aware"""
    if is_inf(a):
        return bool(a > 0) or (is_inf(b) and b < 0)
    if is_inf(b):
        return bool(b < 0)
    if not isinstance(a, Sym) and not isinstance(b, Sym):
        return bool(a >= b - EPS * max(1.0, abs(float(a)), abs(float(b))))
    return a >= b - EPS


def approx_eq(a, b):
    """|a-b| <= EPS as bool (concrete) or SymBool"""
    if not isinstance(a, Sym) and not isinstance(b, Sym):
        if is_inf(a) or is_inf(b):
            return bool(a == b)
        return bool(abs(float(a) - float(b)) <= EPS * max(1.0, abs(float(a)), abs(float(b))))
    if is_inf(a) or is_inf(b):
        return False
    d = toz(a) - toz(b)
    tol = rv(EPS)
    return SymBool(z3.And(d <= tol, d >= -tol))


def asb(x):
    if isinstance(x, SymBool):
        return x
    return bool(x)


class TreeRef(Observer):
    def __init__(self, index=True, growth=True):
        self.do_index, self.do_growth = index, growth

    def start(self, ctx, cfg, algo, dom):
        self.ctx, self.algo, self.cfg = ctx, algo, cfg
        self.name = type(algo).__name__
        self.p = params_of(cfg)
        self.led = Ledger(compare=False)
        self.led.start(ctx, cfg, algo, dom)
        self.rec = ExpansionRecorder()
        self.rec.start(ctx, cfg, algo, dom)
        self.last_pull = {}
        self.k = 0
        self.part = algo.partition
        p = self.p
        if self.name in ("HCT", "VHCT"):
            self.c1 = (p["rho"] / (3 * p["nu"])) ** (1.0 / 8)
            if self.c1 * p["delta"] > 0.5:
                raise AssertionError("parameter tuple outside the region c1*delta <= 1/2 (DESIGN §5a.3)")
        if self.name == "T_HOO":
            x = (math.log(p["rounds"]) / 2 - math.log(1 / p["nu"])) / math.log(1 / p["rho"])
            self.hoo_x = x
            self.hoo_bounds = {math.ceil(x)}
            if abs(x - round(x)) < EPS * max(1.0, abs(x)):
                # within 1e-9 of an integer: if the real value IS that integer - n * nu^2 = rho^(-2k) exactly, decided in
                # rational arithmetic over the exact values of the doubles - the published bound is k and nothing else (seeds
                # S-C06-8/-9: budgets 4^k with rho = 1/2); otherwise a float evaluation may land on either side: both accepted
                from fractions import Fraction
                k = round(x)
                fr, fn = Fraction(p["rho"]), Fraction(p["rounds"]) * Fraction(p["nu"]) ** 2
                exact = (fn == (1 / fr) ** (2 * k)) if k >= 0 else (fn * (1 / fr) ** (-2 * k) == 1)
                self.hoo_bounds = {k} if exact else (self.hoo_bounds | {k, k + 1})
        # constructor: the root is split once
        root = self.part.get_root()
        if self.do_growth:
            ctx.check("growth:root_split_at_construction", root.get_children() is not None and self.part.get_depth() == 1, "the root was not split exactly once at construction")

    # ------------------------------------------------------------------ history
    def hist(self, n):
        return self.led.expect.get(id(n), (n, []))[1]

    def T(self, n):
        return len(self.hist(n))

    # ------------------------------------------------------------------ published quantities
    def log_inv_delta(self, tp):
        p = self.p
        dt = min(1.0, self.c1 * p["delta"] / tp)
        return math.log(1 / dt)

    def width(self, n, tp=None):
        p = self.p
        T = self.T(n)
        if self.name == "T_HOO":
            return math.sqrt(2 * math.log(p["rounds"]) / T)
        L = self.log_inv_delta(tp)
        if self.name == "HCT":
            return p["c"] * math.sqrt(L / T)
        V = var_of(self.hist(n), 1e-3)
        return fsqrt(p["c"] ** 2 * 2 * V * L / T) + 3 * p["bound"] * p["c"] ** 2 * L / T

    def U(self, n, tp=None):
        if self.T(n) == 0:
            return float("inf")
        p = self.p
        return mean_of(self.hist(n)) + p["nu"] * p["rho"] ** n.get_depth() + self.width(n, tp)

    def tau_x(self, n, tp, hist=None):
        """the real number whose ceiling is the threshold (T >= ceil(x) <=> T >= x for integer T)"""
        p = self.p
        h = n.get_depth()
        if h == 0:
            return 0.0
        L = self.log_inv_delta(tp)
        base = p["c"] ** 2 * L * p["rho"] ** (-2 * h) / p["nu"] ** 2
        if self.name == "HCT":
            return base
        rs = self.hist(n) if hist is None else hist
        V = var_of(rs, 1e-3) if rs else 1e-3
        k = 3 * p["bound"] * p["nu"] * p["rho"] ** h
        return (V + k + V * fsqrt(1 + 2 * k / V)) * base

    def tau_candidates(self, n, t):
        """admissible thresholds at round t (DESIGN §5a.2: t+ of the round or of the next one;
        VHCT: variance before or after the reward of the round)"""
        tps = {t_plus(t), t_plus(t + 1)}
        out = []
        for tp in sorted(tps):
            out.append(self.tau_x(n, tp))
            if self.name == "VHCT" and self.hist(n):
                out.append(self.tau_x(n, tp, hist=self.hist(n)[:-1]))
        return out

    def u_epochs(self, n):
        """admissible t+ values for the stored U of node n after self.k completed rounds"""
        s = self.last_pull.get(id(n))
        k = self.k
        R = None
        r = 1
        while r <= k:
            if r > s:
                R = r
            r *= 2
        out = {R} if R is not None else {t_plus(s), t_plus(s + 1)}
        if is_pow2(k + 1):
            out.add(k + 1)
        return sorted(out)

    # ------------------------------------------------------------------ C05: traversal
    def after_pull(self, t, p):
        ctx = self.ctx
        self.rec.after_pull(t, p)
        self.led.after_pull(t, p)
        c = self.led.pending
        self.cur = c
        if c is None:
            ctx.fail("index:point_not_a_representative", "round %d" % t)
            return
        if not self.do_index:
            return
        path = []
        n = c
        while n is not None:
            path.append(n)
            n = n.get_parent()
        path.reverse()
        ctx.check("index:path_from_root", path[0] is self.part.get_root(), "the pulled cell does not hang under the root")
        for a, child in zip(path, path[1:]):
            for s in a.get_children():
                if s is child:
                    continue
                ctx.check("index:descent_max_b", asb(ge(child.get_b_value(), s.get_b_value())),
                          "round %d: at %s the traversal went to child %s (B=%s) although sibling %s has B=%s" % (
                              t, label(a), label(child), child.get_b_value(), label(s), s.get_b_value()))
        if self.name == "T_HOO":
            ctx.check("index:stops_at_leaf", c.get_children() is None, "round %d: T-HOO pulled the internal cell %s" % (t, label(c)))
            return
        # HCT / VHCT: stop at the first cell that is a leaf or has T < tau
        for a in path[:-1]:
            if a.get_depth() == 0:
                continue
            conds = [asb(ge(self.T(a), x - EPS)) for x in self.tau_candidates(a, t)]
            ctx.check("index:interior_reached_threshold", z_or(conds), "round %d: traversal passed through %s with T=%d below its threshold" % (t, label(a), self.T(a)))
        if c.get_children() is not None:
            conds = []
            for x in self.tau_candidates(c, t):
                lt = (self.T(c) < x + EPS)
                conds.append(asb(lt))
            ctx.check("index:stop_below_threshold", z_or(conds), "round %d: stopped at internal cell %s although T=%d reached its threshold" % (t, label(c), self.T(c)))

    # ------------------------------------------------------------------ after the reward
    def after_reward(self, t, r):
        ctx = self.ctx
        was_leaf_before = None
        calls = self.rec.calls_in(t)
        self.rec.after_reward(t, r)
        self.led.after_reward(t, r)
        c = self.cur
        self.k = t
        if c is None:
            return
        if self.name == "T_HOO":
            n = c
            while n is not None:
                self.last_pull[id(n)] = t
                n = n.get_parent()
        else:
            self.last_pull[id(c)] = t
        if self.do_growth:
            self.check_growth(t, c, calls)
        if self.do_index:
            self.check_index(t)

    def check_growth(self, t, c, calls):
        ctx = self.ctx
        ctx.check("growth:at_most_one_expansion", len(calls) <= 1, "round %d: %d sets of children were added" % (t, len(calls)))
        expanded = False
        for call in calls:
            ctx.check("growth:under_pulled_cell", call["cell"] is c, "round %d: children were added under %s, the pulled cell is %s" % (t, label(call["cell"]), label(c)))
            ctx.check("growth:only_leaves", call["was_leaf"], "round %d: %s was expanded although it already had children" % (t, label(call["cell"])))
            ctx.check("growth:in_reward_phase", call["phase"] == "reward", "round %d: expansion during %s" % (t, call["phase"]))
            if call["cell"] is c:
                expanded = True
            for ch in (call["cell"].get_children() or []):
                fresh = ch.get_visited_times() == 0 and is_inf(ch.get_u_value()) and is_inf(ch.get_b_value()) and ch.get_u_value() > 0 and ch.get_b_value() > 0
                ctx.check("growth:new_cells_fresh", fresh, "round %d: new cell %s starts with T=%s U=%s B=%s" % (t, label(ch), ch.get_visited_times(), ch.get_u_value(), ch.get_b_value()))
        was_leaf = all(call["was_leaf"] for call in calls if call["cell"] is c) if expanded else (c.get_children() is None)
        h = c.get_depth()
        if self.name == "T_HOO":
            must = all(h <= b for b in self.hoo_bounds)
            may = any(h <= b for b in self.hoo_bounds)
            if expanded:
                ctx.check("growth:rule", may, "round %d: leaf %s of depth %d expanded beyond the truncation depth ceil(%.6f)" % (t, label(c), h, self.hoo_x))
            else:
                ctx.check("growth:rule", not must, "round %d: leaf %s of depth %d not expanded although depth <= ceil(%.6f)" % (t, label(c), h, self.hoo_x))
            # one level below the bound - but never less than 1: the root is always split once at construction
            ctx.check("growth:depth_bound", self.part.get_depth() <= max(max(self.hoo_bounds) + 1, 1), "tree depth %d exceeds the truncation bound + 1" % self.part.get_depth())
            ctx.count("sym:growth_rule_concrete")
            return
        xs = self.tau_candidates(c, t)
        T = self.T(c)
        if expanded:
            conds = [asb(ge(T, x - EPS)) for x in xs]
            ctx.check("growth:rule", z_or(conds), "round %d: %s expanded with T=%d below its threshold" % (t, label(c), T))
        elif was_leaf:
            conds = [asb(T < x + EPS) for x in xs]
            ctx.check("growth:rule", z_or(conds), "round %d: leaf %s not expanded although T=%d reached its threshold" % (t, label(c), T))

    def check_index(self, t):
        ctx = self.ctx
        for n in all_nodes(self.part):
            if n.get_depth() == 0:
                continue
            u = n.get_u_value()
            b = n.get_b_value()
            T = self.T(n)
            if T == 0:
                ctx.check("index:unvisited_infinite", is_inf(u) and u > 0, "round %d: unvisited cell %s has U=%s" % (t, label(n), u))
            else:
                if is_inf(u):
                    ctx.fail("index:u_value", "round %d: visited cell %s has U=%s" % (t, label(n), u))
                elif self.name == "T_HOO":
                    ctx.check_eq("index:u_value", u, self.U(n), "round %d: U of %s" % (t, label(n)))
                else:
                    cands = [self.U(n, tp) for tp in self.u_epochs(n)]
                    if len(cands) == 1:
                        ctx.check_eq("index:u_value", u, cands[0], "round %d: U of %s" % (t, label(n)))
                    else:
                        conds = [approx_eq(u, cu) for cu in cands]
                        ctx.check("index:u_value", z_or(conds), "round %d: U of %s matches no admissible refresh epoch" % (t, label(n)))
            ch = n.get_children()
            if ch is None:
                ok = (is_inf(u) and is_inf(b) and u == b) if (is_inf(u) or is_inf(b)) else None
                if ok is None:
                    ctx.check_eq("index:b_leaf", b, u, "round %d: leaf %s has B != U" % (t, label(n)))
                else:
                    ctx.check("index:b_leaf", ok, "round %d: leaf %s has B=%s U=%s" % (t, label(n), b, u))
            else:
                m = ch[0].get_b_value()
                for x in ch[1:]:
                    m = self._max(m, x.get_b_value())
                want = self._min(u, m)
                if is_inf(want) or is_inf(b):
                    ctx.check("index:b_internal", is_inf(want) and is_inf(b) and want == b, "round %d: %s has B=%s, min(U, max child B)=%s" % (t, label(n), b, want))
                else:
                    ctx.check_eq("index:b_internal", b, want, "round %d: B of %s != min(U, max child B)" % (t, label(n)))

    @staticmethod
    def _max(a, b):
        from sx.engine import zmax as zm
        return zm(a, b)

    @staticmethod
    def _min(a, b):
        from sx.engine import zmin as zm
        return zm(a, b)
