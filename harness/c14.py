"""C14 — runs are reproducible, instances are isolated, user inputs are not mutated.

determinism : one path runs the same algorithm twice with the same reward terms and the same
              RNG tape while time/random/os/uuid/id/hash return fresh arbitrary values in each
              run (non-interference); the two point sequences must be equal for all values.
isolation   : instances A and B run interleaved (every interleaving of their rounds is a free
              choice) must each produce the sequence they produce alone.
domain      : the user's domain list is compared (structure identity and term identity of the
              bounds) before and after a run.
"""
import numpy as np

from harness import c01
from harness.common import sym_box, arity
from harness.runlevel import build, params_of, partitions_of
from sx import shims

PROPERTY = "C14"
ASSUMPTIONS = [
    "same NumPy seed = the same outcomes of np.random.* in the same order (the recorded draws of run 1 are replayed in run 2); every other source a PyXAB module can reach through its globals (modules time, random, os, uuid, datetime, secrets if imported there; builtins id and hash) returns a fresh arbitrary value at every call",
    "object hashes of partition cells are made an environment too, but only concretely: the two runs of the determinism mode use two different hash assignments (creation order vs a scrambled order), so a dependence on the iteration order of a set / dict keyed by cells shows up as a difference between the runs for these two assignments; other hash assignments, hashes of objects that are not cells, and C-level RNGs other than np.random.* are outside the claim",
    "isolation is explored for RNG-free partitions (B, K3, DB in d=1) as the property's quantifier says; both instances get independent symbolic rewards",
]
T_DET = {"T_HOO": 5, "HCT": 6, "VHCT": 3, "DOO": 5, "SOO": 6, "StoSOO": 6, "SequOOL": 7, "StroquOOL": 7, "VROOM": 1, "Zooming": 4, "POO": 4, "GPO": 4, "PCT": 4, "VPCT": 3}
T_ISO = {"T_HOO": 3, "HCT": 3, "VHCT": 2, "DOO": 3, "SOO": 3, "StoSOO": 3, "SequOOL": 3, "StroquOOL": 3, "Zooming": 2, "POO": 3, "GPO": 3}


def bounds(tier):
    q = 0 if tier == "quick" else 1
    return {"determinism_rounds": {k: v + q for k, v in T_DET.items()}, "isolation_rounds_per_instance": {k: v + q for k, v in T_ISO.items()},
            "partitions": "determinism: B, RB, K3, RK3; isolation: B, K3, DB (d=1)", "pairs": "same class twice (same arguments: every interleaving; other arguments: B k rounds, A all rounds, B the rest, for every k), and T_HOO against each other class",
            "outside": "longer runs; hash-ordering effects"}


def configs(tier, seed):
    q = 0 if tier == "quick" else 1
    out = []
    for algo, T in T_DET.items():
        for part in ("B", "RB", "K3", "RK3"):
            if algo == "VROOM" and part in ("K3", "RK3"):
                continue
            Tq = c01.rounds_override(algo, part, 1, T + q, q)
            Tq = min(Tq, T + q)
            if algo == "Zooming" and part.startswith("R"):
                Tq = 3 if part == "RB" else 2
            out.append({"name": "det-%s-%s-T%d" % (algo, part, Tq), "mode": "det", "algo": algo, "part": part, "d": 1, "T": Tq, "cost": Tq * 4})
        if algo == "VROOM":
            out.append({"name": "dom-VROOM-d1", "mode": "dom", "algo": algo, "part": "B", "d": 1, "T": 1, "cost": 4})
        else:
            out.append({"name": "dom-%s-d2" % algo, "mode": "dom", "algo": algo, "part": "DB", "d": 2, "T": 2, "cost": 4})
            if algo in ("T_HOO", "HCT", "SOO", "Zooming", "SequOOL", "POO"):
                for part in ("B", "K3", "RB"):
                    if algo == "Zooming" and part == "RB":
                        continue
                    out.append({"name": "dom-%s-%s-d2-reversed-range" % (algo, part), "mode": "dom", "algo": algo, "part": part, "d": 2, "T": 3, "reversed": True, "cost": 6})
    for algo, part, d, T in (("T_HOO", "B", 2, 3), ("T_HOO", "K3", 2, 3), ("DOO", "B", 2, 4), ("SOO", "RB", 2, 3), ("SequOOL", "DB", 2, 3), ("HCT", "B", 1, 4), ("Zooming", "B", 2, 2),
                             ("StoSOO", "RK3", 1, 3), ("POO", "B", 2, 3)):
        out.append({"name": "det-%s-%s-d%d-ndarray-domain-T%d" % (algo, part, d, T), "mode": "det", "algo": algo, "part": part, "d": d, "T": T, "ndarray": True, "cost": 12 * d})
    for algo in ("T_HOO", "SOO", "HCT"):
        out.append({"name": "det-%s-B-d3-degenerate-coordinate-T3" % algo, "mode": "det", "algo": algo, "part": "B", "d": 3, "T": 3, "degenerate": 1, "cost": 30})
    out.append({"name": "det-StroquOOL-B-n200-T18", "mode": "det", "algo": "StroquOOL", "part": "B", "d": 1, "T": 18, "params": {"n": 200}, "cost": 60})
    for algo, T in T_ISO.items():
        for part in ("B", "K3"):
            out.append({"name": "iso-%s-%s-x2-T%d" % (algo, part, T + q), "mode": "iso", "algo": algo, "other": algo, "part": part, "d": 1, "T": T + q, "cost": 20})
        out.append({"name": "iso-%s-DB-shared-domain-T%d" % (algo, min(T + q, 2)), "mode": "iso", "algo": algo, "other": algo, "part": "DB", "d": 2, "T": min(T + q, 2), "shared_dom": True, "cost": 20})
        if algo != "T_HOO":
            out.append({"name": "iso-T_HOO-vs-%s-B-T%d" % (algo, T + q), "mode": "iso", "algo": "T_HOO", "other": algo, "part": "B", "d": 1, "T": min(T + q, 3), "cost": 20})
    # two live instances of the SAME class with DIFFERENT constructor arguments (anything shared through the class
    # or the module and keyed by less than the arguments is then wrong for one of them): B runs k rounds, then A
    # runs all of its rounds, then B the rest, for every k; B's rewards are concrete (seed S-C14-5)
    for algo, T in {"T_HOO": 6, "HCT": 7, "VHCT": 4, "DOO": 5, "SOO": 6, "StoSOO": 8, "SequOOL": 7, "StroquOOL": 9, "Zooming": 4, "POO": 6, "GPO": 6}.items():
        Tq = T + (q if algo != "VHCT" else 0)
        out.append({"name": "iso-%s-B-otherargs-blocks-T%d" % (algo, Tq), "mode": "iso", "algo": algo, "other": algo, "other_params": OTHER_ARGS[algo],
                    "blocks": True, "part": "B", "d": 1, "T": Tq, "cost": 40})
    # two live instances of DIFFERENT classes, block schedule (B runs k rounds, A all, B the rest; k = 0, T/2, T), integer arguments
    # aligned (a budget of one equals a round number the other reaches): state shared across classes through a common base
    # class, module or helper and keyed by bare numbers (seed S-C14-6: one memo table for t+ and for the harmonic sum)
    for a, b, T in CROSS_PAIRS:
        Tq = T + q
        out.append({"name": "iso-%s-vs-%s-B-aligned-blocks-T%d" % (a, b, Tq), "mode": "iso", "algo": a, "params": aligned_args(a, Tq), "other": b,
                    "other_params": aligned_args(b, Tq), "blocks": True, "block_positions": [0, Tq // 2, Tq], "part": "B", "d": 1, "T": Tq, "cost": 60})
    for algo, T in T_DET.items():
        Tq = T + q + (3 if algo in ("SequOOL", "StoSOO", "SOO") else 0)
        out.append({"name": "reuse-%s-B-T%d" % (algo, Tq), "mode": "reuse", "algo": algo, "part": "B", "d": 1, "T": Tq, "cost": Tq * 4})
    out.append({"name": "twin-det", "mode": "det", "algo": "T_HOO", "part": "B", "d": 1, "T": 2, "twin": True, "expect_fail": "twin"})
    return out


CROSS_PAIRS = [("HCT", "SequOOL", 6), ("SequOOL", "HCT", 6), ("T_HOO", "SOO", 6), ("SOO", "T_HOO", 6), ("HCT", "DOO", 6), ("StoSOO", "HCT", 6), ("Zooming", "HCT", 4),
               ("SequOOL", "StroquOOL", 6), ("SOO", "SequOOL", 7), ("POO", "SequOOL", 6), ("GPO", "HCT", 6), ("DOO", "StoSOO", 6)]


def aligned_args(algo, T):
    """constructor arguments whose integers coincide with round numbers reached in a run of T rounds"""
    return {"T_HOO": {"rounds": T}, "SequOOL": {"n": T}, "SOO": {"n": T, "h_max": T}, "DOO": {"n": T}, "StoSOO": {"n": T, "k": 2, "h_max": T},
            "StroquOOL": {"n": 100 + T}}.get(algo, {})


OTHER_ARGS = {
    "T_HOO": {"rounds": 1000, "nu": 3, "rho": 0.7}, "HCT": {"c": 0.3, "nu": 3, "rho": 0.7, "delta": 0.05}, "VHCT": {"c": 0.3, "nu": 3, "rho": 0.7, "bound": 2},
    "DOO": {"n": 50}, "SOO": {"n": 50, "h_max": 5}, "StoSOO": {"n": 400, "k": 3, "h_max": 5}, "SequOOL": {"n": 40}, "StroquOOL": {"n": 400},
    "VROOM": {"n": 8, "h_max": 2, "b": 2, "f_max": 3}, "Zooming": {"nu": 3, "rho": 0.5}, "POO": {"rounds": 500, "rhomax": 0.95, "numax": 2},
    "GPO": {"rounds": 300, "rhomax": 0.8, "numax": 2}, "PCT": {"rounds": 300, "rhomax": 0.8, "numax": 2}, "VPCT": {"rounds": 300, "rhomax": 0.8, "numax": 2},
}


_HASH = {"scheme": 0, "count": 0}


def set_hash_scheme(k):
    _HASH["scheme"] = k


def setup(mods_):
    shims.install_env(mods_)
    # object hashes (hence the iteration order of sets / dicts keyed by cells) differ between the two runs of
    # the determinism mode: run 1 hashes cells in creation order, run 2 in a scrambled order
    P_node = mods_["Node"].P_node
    orig_init = P_node.__init__

    def init(self, *a, **kw):
        _HASH["count"] += 1
        k = _HASH["count"]
        self._verif_hash = k if _HASH["scheme"] == 0 else (k * 7919 + 13) % 1021
        orig_init(self, *a, **kw)

    P_node.__init__ = init
    P_node.__hash__ = lambda self: getattr(self, "_verif_hash", 0)


def snapshot(dom):
    if isinstance(dom, np.ndarray):
        return (dom, [(None, dom[i][0], dom[i][1]) for i in range(len(dom))])
    return (dom, [(row, row[0], row[1]) for row in dom])


def check_domain(ctx, dom, snap, tag):
    obj, rows = snap
    ok = dom is obj and len(dom) == len(rows)
    if ok:
        for row, (r0, lo, hi) in zip(dom, rows):
            ok = ok and (r0 is None or row is r0) and len(row) == 2 and ctx.same(row[0], lo) and ctx.same(row[1], hi)
    ctx.check(tag, ok, "the domain object passed by the user was modified")


class RunRaised(Exception):
    pass


def one_run(ctx, cfg, dom, rewards, T, algo_name=None, second=False, tag="second_run"):
    """drive one instance; in a *second* run of a product harness an exception of the code under test is
    itself a discrepancy (the first run went through on the same inputs)"""
    c = dict(cfg)
    if algo_name:
        c["algo"] = algo_name

    def call(label, fn, *a):
        if not second:
            return ctx.call(label, fn, *a)
        ok, v = ctx.soft_call(fn, *a)
        if not ok:
            ctx.fail(tag + ":raised_only_in_this_run", "%s raised %s: %s although the reference run did not" % (label, type(v).__name__, str(v)[:200]))
            raise RunRaised()
        return v

    pts = []
    try:
        algo = build(ctx, c, dom) if not second else call("init", lambda: build(ctx, c, dom))
        for t in range(1, T + 1):
            p = call("pull", algo.pull, t)
            pts.append(p)
            call("receive_reward", algo.receive_reward, t, rewards[t - 1])
    except RunRaised:
        return pts
    ok, lp = ctx.soft_call(algo.get_last_point)
    pts.append(lp if ok else None)
    return pts


def compare(ctx, tag, a, b, what):
    ctx.check(tag + ":length", len(a) == len(b), what)
    for k, (p, q) in enumerate(zip(a, b)):
        if p is None or q is None or not isinstance(p, (list, tuple)) or not isinstance(q, (list, tuple)):
            ctx.check(tag + ":same_points", (p is None) == (q is None), "%s: output %d is %r in one run and %r in the other" % (what, k, p, q))
            continue
        ctx.check(tag + ":same_points", len(p) == len(q), what)
        for x, y in zip(p, q):
            ctx.check_eq(tag + ":same_points", x, y, "%s: output %d differs between the two runs" % (what, k + 1))


def run(ctx, cfg):
    set_hash_scheme(0)
    _HASH["count"] = 0
    mode, T, d = cfg["mode"], cfg["T"], cfg["d"]
    dom = sym_box(ctx, d)
    if cfg.get("degenerate") is not None:
        # a coordinate fixed by the user: [v, v] (only reproducibility and non-mutation are claimed on such a box)
        dom[cfg["degenerate"]][1] = dom[cfg["degenerate"]][0]
    if cfg.get("ndarray"):
        # the domain handed over as a 2-D NumPy array (rows [lo, hi]) instead of a list of lists: slices of it are views, so a
        # shallow copy inside the library writes into the user's array (seed S-C14-8)
        dom = np.array(dom, dtype=object) if ctx.symbolic else np.array([[float(v) for v in row] for row in dom], dtype=float)
    snap = snapshot(dom)
    if mode == "dom" and cfg.get("reversed"):
        # the last range is written [high, low] (the repository's own tests do that): only non-mutation is claimed
        lo, hi = dom[-1]
        dom[-1][0], dom[-1][1] = hi, lo
        snap = snapshot(dom)
    if mode == "dom":
        rewards = [ctx.real("r%d" % t) for t in range(1, T + 1)]
        shims.rng_fresh()
        one_run(ctx, cfg, dom, rewards, T)
        check_domain(ctx, dom, snap, "domain:not_mutated")
        ctx.count("sym:domain_compared")
        return
    rewards = [ctx.real("r%d" % t) for t in range(1, T + 1)]
    if mode == "det":
        shims.rng_record()
        try:
            a = one_run(ctx, cfg, dom, rewards, T)
            f0 = ctx.forks_so_far()
            shims.rng_replay()
            set_hash_scheme(1)
            b = one_run(ctx, cfg, dom, rewards, T, second=True, tag="determinism")
            set_hash_scheme(0)
            if ctx.forks_so_far() != f0:
                ctx.count("second_run_forked")
        finally:
            shims.rng_fresh()
        compare(ctx, "determinism", a, b, "same seed, same arguments, same rewards")
        check_domain(ctx, dom, snap, "domain:not_mutated")
        for k, p in enumerate(a[:-1]):
            ctx.observe("p%d" % k, p)
        if cfg.get("twin"):
            ctx.check_eq("twin", a[0][0], a[1][0], "reachability witness: deliberately false")
        return
    if mode == "reuse":
        # the same run before and after another instance with different arguments lived in the process
        shims.rng_record()
        try:
            a = one_run(ctx, cfg, dom, rewards, T)
            tape = list(shims.RNG_STATE["tape"])
            shims.rng_fresh()
            dom_b = sym_box(ctx, d)
            rb = [ctx.real("s%d" % t) for t in range(1, 3)]
            one_run(ctx, dict(cfg, params=OTHER_ARGS[cfg["algo"]]), dom_b, rb, 2)
            shims.rng_replay(tape=tape)
            b = one_run(ctx, cfg, dom, rewards, T, second=True, tag="isolation")
        finally:
            shims.rng_fresh()
        compare(ctx, "isolation", a, b, "the same run repeated after an instance with other arguments was used")
        check_domain(ctx, dom, snap, "domain:not_mutated")
        return
    # isolation
    shims.rng_fresh()
    rb = [ctx.real("s%d" % t) for t in range(1, T + 1)]
    cfg_b = dict(cfg, algo=cfg["other"])
    if cfg.get("other_params") is not None:
        cfg_b["params"] = cfg["other_params"]
    if cfg.get("blocks"):
        rb = [(0.3, 0.9, 0.1, 0.7, 0.5, 0.6, 0.2, 0.8)[t % 8] for t in range(T)]
    if cfg.get("shared_dom"):
        dom_b = dom  # both instances are built from the very same list object
    else:
        dom_b = sym_box(ctx, d)  # the second instance lives on its own box
    snap_b = snapshot(dom_b)
    # each reference run starts from the import-time content of every module / class level data attribute of the PyXAB
    # modules ("alone in a fresh process"): otherwise a table shared by both classes would already be filled by the first
    # reference run and the interleaved run would merely agree with a corrupted reference (seed S-C14-6)
    shims.restore_state()
    solo_a = one_run(ctx, cfg, dom, rewards, T)
    shims.restore_state()
    solo_b = one_run(ctx, cfg_b, dom_b, rb, T)
    shims.restore_state()
    A = build(ctx, cfg, dom)
    B = build(ctx, cfg_b, dom_b)
    ia = ib = 0
    pa, pb = [], []
    trace = []
    kb = ctx.choose(T + 1, "B_first", allowed=cfg.get("block_positions")) if cfg.get("blocks") else None
    while ia < T or ib < T:
        if kb is not None:
            who = 1 if (ib < kb or ia >= T) else 0
        elif ia < T and ib < T:
            who = ctx.choose(2, "interleave")
        else:
            who = 0 if ia < T else 1
        trace.append("AB"[who])
        if who == 0:
            ia += 1
            pa.append(ctx.call("pull", A.pull, ia))
            ctx.call("receive_reward", A.receive_reward, ia, rewards[ia - 1])
        else:
            ib += 1
            pb.append(ctx.call("pull", B.pull, ib))
            ctx.call("receive_reward", B.receive_reward, ib, rb[ib - 1])
    ok, lpa = ctx.soft_call(A.get_last_point)
    pa.append(lpa if ok else None)
    ok, lpb = ctx.soft_call(B.get_last_point)
    pb.append(lpb if ok else None)
    ctx.note("interleaving " + "".join(trace))
    compare(ctx, "isolation", solo_a, pa, "instance A interleaved (%s) vs alone" % "".join(trace))
    compare(ctx, "isolation", solo_b, pb, "instance B interleaved (%s) vs alone" % "".join(trace))
    check_domain(ctx, dom, snap, "domain:not_mutated")
    check_domain(ctx, dom_b, snap_b, "domain:not_mutated")
    from harness.runlevel import check_point
    for p_ in pa:
        if p_ is not None:
            check_point(ctx, "isolation:A_in_own_box", p_, dom)
    for p_ in pb:
        if p_ is not None:
            check_point(ctx, "isolation:B_in_own_box", p_, dom_b)
