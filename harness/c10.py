"""C10 — POO routes each round to one base learner and scores learners by true means."""
import math

from harness.runlevel import build, params_of
from harness.stubs import make_stub
from harness.treeref import mean_of
from harness.ledger import same_term

PROPERTY = "C10"
ASSUMPTIONS = [
    "base learners are recording stubs (same __name__ as T_HOO / HCT / VHCT); rewards are unconstrained solver variables; POO's control flow does not depend on rewards except inside get_last_point, which is queried once at the end (every outcome of its arg-max is explored in the short runs; the long runs confine the rewards of learner i to the band [i, i+1/2] so that the arg-max has one feasible outcome)",
    "the rho grid: a learner's rho must equal rhomax^(2N/(2i+1)) for some power of two N >= 2 and 0 <= i < N, lie in (0, rhomax) and differ from every other learner's",
    "only rhomax for which POO starts (>= 0.84): smaller values are the recorded finding F-poo-rhomax of C01",
]


def bounds(tier):
    q = 0 if tier == "quick" else 1
    return {"rounds": "150 (banded rewards) and 24 (free rewards)" if q == 0 else "600 (banded) and 40 (free)", "rhomax": [0.84, 0.86, 0.9, 0.93, 0.95, 0.99], "base": ["T_HOO", "HCT", "VHCT"],
            "outside": "longer horizons (the inductive step of DESIGN §C10 is not discharged)"}


FREE_T = {0.84: (24, 40), 0.86: (20, 40), 0.9: (12, 30), 0.93: (8, 12), 0.95: (7, 10), 0.99: (7, 10)}


def configs(tier, seed):
    q = 0 if tier == "quick" else 1
    out = []
    for rm in (0.84, 0.86, 0.9, 0.93, 0.95, 0.99):
        for base in ("T_HOO", "HCT", "VHCT"):
            out.append({"name": "route-banded-%s-rhomax%s" % (base, rm), "algo": "POO", "part": "B", "d": 1, "mode": "banded", "T": 150 if q == 0 else 600,
                        "params": {"rhomax": rm, "base": base, "numax": 0.7}, "cost": 20})
        out.append({"name": "route-free-T_HOO-rhomax%s" % rm, "algo": "POO", "part": "B", "d": 1, "mode": "free", "T": FREE_T[rm][q],
                    "params": {"rhomax": rm, "base": "T_HOO"}, "cost": 40})
    out.append({"name": "twin-POO", "algo": "POO", "part": "B", "d": 1, "mode": "free", "T": 6, "params": {"rhomax": 0.9, "base": "T_HOO"}, "twin": True, "expect_fail": "twin"})
    return out


def on_grid(rho, rhomax):
    if not (0 < rho < rhomax):
        return False
    e = math.log(rho) / math.log(rhomax)
    N = 2
    while N <= 4096:
        for i in range(N):
            if abs(e - 2 * N / (2 * i + 1)) <= 1e-9 * max(1.0, e):
                return True
        N *= 2
    return False


def run(ctx, cfg):
    p = params_of(cfg)
    rhomax, numax = p["rhomax"], p["numax"]
    learners = []
    Stub = make_stub(p["base"], learners)
    dom = [[0.0, 1.0]]
    algo = build(ctx, cfg, dom, base_cls=Stub)
    T = cfg["T"]
    served = {}
    for t in range(1, T + 1):
        n_before = len(learners)
        pb = [len(L.pulls) for L in learners]
        pt = ctx.call("pull", algo.pull, t)
        pulled = [L for i, L in enumerate(learners) if len(L.pulls) > (pb[i] if i < len(pb) else 0)]
        ctx.check("route:one_learner_serves", len(pulled) == 1 and pulled[0].pulls[-1][2] is pt, "round %d: %d learners were pulled" % (t, len(pulled)))
        who = pulled[0] if len(pulled) == 1 else None
        if cfg["mode"] == "banded" and who is not None:
            r = ctx.real("r%d" % t, who.idx, who.idx + 0.5)
        else:
            r = ctx.real("r%d" % t)
        rb = [len(L.rewards) for L in learners]
        ctx.call("receive_reward", algo.receive_reward, t, r)
        credited = [L for i, L in enumerate(learners) if len(L.rewards) > rb[i]]
        ok = len(credited) == 1 and credited[0] is who and len(who.rewards) == rb[who.idx] + 1 and same_term(who.rewards[-1][2], r)
        ctx.check("route:reward_to_same_learner", ok, "round %d: served by learner %s, reward delivered to %s" % (t, who.idx if who else None, [x.idx for x in credited]))
        if who is not None:
            served.setdefault(who.idx, []).append(r)
        # learners are only ever added, in order, with grid parameters
        ctx.check("route:learners_only_added", len(learners) >= n_before and [L.idx for L in learners] == list(range(len(learners))) and len(algo.V_algo) == len(learners)
                  and all(a is b for a, b in zip(algo.V_algo, learners)), "round %d: the learner list was reordered or shrunk" % t)
        for L in learners[n_before:]:
            rho = L.kw.get("rho")
            ctx.check("route:new_learner_nu", L.kw.get("nu") == numax, "learner %d: nu=%s" % (L.idx, L.kw.get("nu")))
            ctx.check("route:new_learner_rho_on_grid", rho is not None and on_grid(rho, rhomax), "learner %d: rho=%s is not rhomax^(2N/(2i+1)) in (0, rhomax)" % (L.idx, rho))
            ctx.check("route:rho_distinct", all(abs(rho - M.kw.get("rho")) > 1e-12 for M in learners if M is not L), "learner %d repeats an existing rho=%s" % (L.idx, rho))
        # scores are true means, counts are true counts
        for L in learners:
            rs = served.get(L.idx, [])
            ctx.check("route:count", algo.Times[L.idx] == len(rs), "round %d learner %d: Times=%s, %d rewards delivered" % (t, L.idx, algo.Times[L.idx], len(rs)))
            if rs:
                ctx.check_eq("route:score_is_mean", algo.V_reward[L.idx], mean_of(rs), "round %d learner %d: score != mean of its %d rewards" % (t, L.idx, len(rs)))
    # recommendation
    pb = [len(L.pulls) for L in learners]
    ok, lp = ctx.soft_call(algo.get_last_point)
    if ok:
        who = [L for i, L in enumerate(learners) if len(L.pulls) > pb[i] and L.pulls[-1][2] is lp]
        if len(who) != 1:
            ctx.fail("route:recommendation_from_a_learner", "get_last_point is not the next proposal of exactly one learner")
        else:
            sc = lambda L: mean_of(served[L.idx]) if served.get(L.idx) else 0
            for L in learners:
                if L is not who[0]:
                    ctx.check_ge("route:recommends_best_score", sc(who[0]), sc(L), "learner %d has a higher mean than the recommending learner %d" % (L.idx, who[0].idx))
    if cfg.get("twin"):
        ctx.check_eq("twin", algo.V_reward[0], 0, "reachability witness: deliberately false")
