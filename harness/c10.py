"""C10 — POO routes each round to one base learner and scores learners by true means."""
import math

from harness.runlevel import build, params_of
from harness.stubs import make_stub
from harness.treeref import mean_of
from harness.ledger import same_term

PROPERTY = "C10"
ASSUMPTIONS = [
    "base learners are recording stubs (same __name__ as T_HOO / HCT / VHCT); rewards are unconstrained solver variables; POO's control flow does not depend on rewards except inside get_last_point, which is queried at the end of every run and, in the query-window runs, after three consecutive rounds t-2, t-1, t for every t of a window (every outcome of its arg-max is explored in the short runs; the long runs confine the rewards of learner i to the band [i, i+1/2] so that the arg-max has one feasible outcome)",
    "the rho grid: a learner's rho must equal rhomax^(2N/(2i+1)) for some power of two N >= 2 and 0 <= i < N, lie in (0, rhomax) and differ from every other learner's",
    "only rhomax for which POO starts (>= 0.84): smaller values are the recorded finding F-poo-rhomax of C01",
]


def bounds(tier):
    q = 0 if tier == "quick" else 1
    return {"rounds": "150 (banded rewards) and 24 (free rewards)" if q == 0 else "600 (banded) and 40 (free)", "rhomax": [0.84, 0.86, 0.9, 0.93, 0.95, 0.99], "base": ["T_HOO", "HCT", "VHCT"],
            "outside": "longer horizons (the inductive step of DESIGN §C10 is not discharged)"}


FREE_T = {0.84: (24, 40), 0.86: (20, 40), 0.9: (12, 30), 0.93: (8, 12), 0.95: (7, 10), 0.99: (7, 10)}


def configs(tier, seed):
    q = 0 if tier == "quick" else 1
    out = []
    for rm in (0.84, 0.86, 0.9, 0.93, 0.95, 0.99):
        for base in ("T_HOO", "HCT", "VHCT"):
            out.append({"name": "route-banded-%s-rhomax%s" % (base, rm), "algo": "POO", "part": "B", "d": 1, "mode": "banded", "T": 150 if q == 0 else 600,
                        "params": {"rhomax": rm, "base": base, "numax": 0.7}, "cost": 20})
        out.append({"name": "route-free-T_HOO-rhomax%s" % rm, "algo": "POO", "part": "B", "d": 1, "mode": "free", "T": FREE_T[rm][q],
                    "params": {"rhomax": rm, "base": "T_HOO"}, "cost": 40})
    # budgets around the doublings (the schedule must not depend on the declared budget)
    for rm, budgets in ((0.9, range(12, 131, 2 if q == 0 else 1)), (0.84, range(20, 60, 3)), (0.86, range(16, 40, 2))):
        for R in budgets:
            out.append({"name": "route-budget%d-T_HOO-rhomax%s" % (R, rm), "algo": "POO", "part": "B", "d": 1, "mode": "banded", "T": min(R, 130),
                        "params": {"rhomax": rm, "base": "T_HOO", "rounds": R}, "cost": 10})
    # 'at every moment get_last_point is the next proposal of a learner with the highest score': three consecutive queries
    # (after rounds t-2, t-1, t; free rewards, so every outcome of each arg-max is explored) for every t of the window; a
    # recommendation remembered from an earlier query, or a query that disturbs the routing, shows here (seed S-C10-7)
    for rm, top in ((0.9, 26 if q == 0 else 44), (0.84, 34 if q == 0 else 60), (0.95, 9)):
        for t in range(2, top + 1):
            out.append({"name": "route-query%d-T_HOO-rhomax%s" % (t, rm), "algo": "POO", "part": "B", "d": 1, "mode": "free", "T": t, "queries": [t - 2, t - 1],
                        "params": {"rhomax": rm, "base": "T_HOO"}, "cost": 10})
    out.extend(inductive_configs(tier))
    out.append({"name": "twin-POO", "algo": "POO", "part": "B", "d": 1, "mode": "free", "T": 6, "params": {"rhomax": 0.9, "base": "T_HOO"}, "twin": True, "expect_fail": "twin"})
    return out


def on_grid(rho, rhomax):
    if not (0 < rho < rhomax):
        return False
    e = math.log(rho) / math.log(rhomax)
    N = 2
    while N <= 4096:
        for i in range(N):
            if abs(e - 2 * N / (2 * i + 1)) <= 1e-9 * max(1.0, e):
                return True
        N *= 2
    return False


def setup(mods_):
    from sx import ufmodel
    ufmodel.install()


def run(ctx, cfg):
    if cfg.get("mode") == "induct":
        return run_induct(ctx, cfg)
    p = params_of(cfg)
    rhomax, numax = p["rhomax"], p["numax"]
    learners = []
    Stub = make_stub(p["base"], learners)
    dom = [[0.0, 1.0]]
    algo = build(ctx, cfg, dom, base_cls=Stub)
    T = cfg["T"]
    served = {}
    for t in range(1, T + 1):
        n_before = len(learners)
        pb = [len(L.pulls) for L in learners]
        pt = ctx.call("pull", algo.pull, t)
        pulled = [L for i, L in enumerate(learners) if len(L.pulls) > (pb[i] if i < len(pb) else 0)]
        ctx.check("route:one_learner_serves", len(pulled) == 1 and pulled[0].pulls[-1][2] is pt, "round %d: %d learners were pulled" % (t, len(pulled)))
        who = pulled[0] if len(pulled) == 1 else None
        if cfg["mode"] == "banded" and who is not None:
            r = ctx.real("r%d" % t, who.idx, who.idx + 0.5)
        else:
            r = ctx.real("r%d" % t)
        rb = [len(L.rewards) for L in learners]
        ctx.call("receive_reward", algo.receive_reward, t, r)
        credited = [L for i, L in enumerate(learners) if len(L.rewards) > rb[i]]
        ok = len(credited) == 1 and credited[0] is who and len(who.rewards) == rb[who.idx] + 1 and same_term(who.rewards[-1][2], r)
        ctx.check("route:reward_to_same_learner", ok, "round %d: served by learner %s, reward delivered to %s" % (t, who.idx if who else None, [x.idx for x in credited]))
        if who is not None:
            served.setdefault(who.idx, []).append(r)
        # learners are only ever added, in order, with grid parameters
        ctx.check("route:learners_only_added", len(learners) >= n_before and [L.idx for L in learners] == list(range(len(learners))) and len(algo.V_algo) == len(learners)
                  and all(a is b for a, b in zip(algo.V_algo, learners)), "round %d: the learner list was reordered or shrunk" % t)
        for L in learners[n_before:]:
            rho = L.kw.get("rho")
            ctx.check("route:new_learner_nu", L.kw.get("nu") == numax, "learner %d: nu=%s" % (L.idx, L.kw.get("nu")))
            ctx.check("route:new_learner_rho_on_grid", rho is not None and on_grid(rho, rhomax), "learner %d: rho=%s is not rhomax^(2N/(2i+1)) in (0, rhomax)" % (L.idx, rho))
            ctx.check("route:rho_distinct", all(abs(rho - M.kw.get("rho")) > 1e-12 for M in learners if M is not L), "learner %d repeats an existing rho=%s" % (L.idx, rho))
        # scores are true means, counts are true counts
        for L in learners:
            rs = served.get(L.idx, [])
            ctx.check("route:count", algo.Times[L.idx] == len(rs), "round %d learner %d: Times=%s, %d rewards delivered" % (t, L.idx, algo.Times[L.idx], len(rs)))
            if rs:
                ctx.check_eq("route:score_is_mean", algo.V_reward[L.idx], mean_of(rs), "round %d learner %d: score != mean of its %d rewards" % (t, L.idx, len(rs)))
        if t in cfg.get("queries", ()):
            recommendation(ctx, algo, learners, served, "after round %d: " % t)
    recommendation(ctx, algo, learners, served, "")
    if cfg.get("twin"):
        ctx.check_eq("twin", algo.V_reward[0], 0, "reachability witness: deliberately false")


def recommendation(ctx, algo, learners, served, when):
    pb = [len(L.pulls) for L in learners]
    ok, lp = ctx.soft_call(algo.get_last_point)
    if ok:
        who = [L for i, L in enumerate(learners) if len(L.pulls) > pb[i] and L.pulls[-1][2] is lp]
        if len(who) != 1:
            ctx.fail("route:recommendation_from_a_learner", when + "get_last_point is not the next proposal of exactly one learner")
        else:
            sc = lambda L: mean_of(served[L.idx]) if served.get(L.idx) else 0
            for L in learners:
                if L is not who[0]:
                    ctx.check_ge("route:recommends_best_score", sc(who[0]), sc(L), when + "learner %d has a higher mean than the recommending learner %d" % (L.idx, who[0].idx))


# ---------------------------------------------------------------------------------------------
# Inductive step (DESIGN §C10): from an ARBITRARY state satisfying the schedule invariant, one real
# pull + receive_reward re-establishes the invariant and the mean equation.  Together with the
# bounded runs above (which start from the constructor's state and satisfy the invariant there) this
# covers horizons of any length for the routing / score / count clauses.
def inductive_configs(tier):
    out = []
    for N in (2, 4, 8) + ((16,) if tier == "thorough" else ()):
        for mode in ("create", "sweep"):
            out.append({"name": "induct-%s-N%d" % (mode, N), "algo": "POO", "part": "B", "d": 1, "mode": "induct", "phase_mode": mode, "N": N, "T": 1,
                        "params": {"rhomax": 0.9, "base": "T_HOO"}, "cost": 5})
    return out


def run_induct(ctx, cfg):
    """POO object put directly into a symbolic state:
         N concrete power of two, n = m*N with m a symbolic integer >= 1,
         sweep mode : L learners, algo_counter = a symbolic in [0, L), Times[i] = m + [i < a]
         create mode: L-1 finished learners with Times = m, the newest with Times = counter in [0, m)
                      (counter = 0 means: the newest learner is created by this very pull)
         V_reward[i] symbolic with V_reward[i] * Times[i] = S_i (S_i the reward sum)
       the mode test N <= 0.5*Dmax*ln(n/ln n) is forced to the wanted side by an assumption on the
       uninterpreted log terms (it is evaluated on the same terms in pull and receive_reward)."""
    import numpy as np
    from sx import ufmodel
    from sx.engine import Sym
    ufmodel.reset()
    p = params_of(cfg)
    learners = []
    Stub = make_stub(p["base"], learners)
    dom = [[0.0, 1.0]]
    algo = build(ctx, cfg, dom, base_cls=Stub)
    N = cfg["N"]
    m = ctx.int("m", 1)
    algo.N = N
    algo.n = m * N
    L = N  # enough learners for every phase index of this N
    mode = cfg["phase_mode"]
    S = [ctx.real("S%d" % i) for i in range(L)]
    V = [ctx.real("V%d" % i) for i in range(L)]
    stubs = [Stub(nu=1, rho=0.5, domain=dom) for _ in range(L)]
    if mode == "sweep":
        a = ctx.int("a", 0, L - 1)
        a_c = ctx.E.concretize(a.e) if ctx.symbolic else a  # which learner is next: every value explored
        times = [m + (1 if i < a_c else 0) for i in range(L)]
        algo.V_algo = list(stubs)
        algo.algo_counter = a_c
        algo.phase, algo.counter = 0, 0
        cur = a_c
    else:
        k = ctx.choose(L, "learners_finished")  # how many learners of this N are complete
        counter = ctx.int("counter", 0)
        ctx.assume(counter < m)
        fresh = bool(ctx.holds(counter == 0)) if not ctx.symbolic else None
        algo.phase = k
        algo.counter = counter
        algo.V_algo = list(stubs[:k + 1])
        times = [m] * k + [counter]
        cur = k
    algo.V_reward = [V[i] for i in range(len(algo.V_algo))]
    algo.Times = [times[i] for i in range(len(algo.V_algo))]
    for i in range(len(algo.V_algo)):
        ctx.assume(V[i] * times[i] == S[i])
    # force the mode: Dmax is part of the abstract state (0: the creation bound is never met; huge: always)
    algo.Dmax = 1e9 if mode == "create" else 0.0
    test = N <= 0.5 * algo.Dmax * np.log(algo.n / np.log(algo.n))
    want = (mode == "create")
    if ctx.symbolic and not isinstance(test, (bool, np.bool_)):
        ctx.assume(test if want else ~test)
    n_before = len(algo.V_algo)
    created_now = False
    if mode == "create":
        # counter == 0: POO creates the learner in this pull; model it by dropping the pre-made stub
        if bool(counter == 0):
            algo.V_algo.pop()
            algo.V_reward.pop()
            algo.Times.pop()
            created_now = True
    pb = [len(x.pulls) for x in stubs] + [0] * 4
    nl = len(learners)
    pt = ctx.call("pull", algo.pull, 1)
    serving = algo.V_algo[cur]
    ctx.check("induct:served_by_scheduled_learner", serving.pulls and serving.pulls[-1][2] is pt, "the point is not the proposal of the learner the schedule designates")
    ctx.check("induct:one_learner_pulled", sum(len(x.pulls) for x in algo.V_algo) == 1, "more than one learner pulled")
    r = ctx.real("r")
    ctx.call("receive_reward", algo.receive_reward, 1, r)
    ctx.check("induct:reward_to_serving_learner", len(serving.rewards) == 1 and serving.rewards[-1][2] is r and sum(len(x.rewards) for x in algo.V_algo) == 1,
              "the reward did not go to exactly the serving learner")
    # invariant afterwards: count + 1, score = (S + r)/(count + 1), all others untouched
    old_t = 0 if created_now else times[cur]
    old_S = 0 if created_now else S[cur]
    ctx.check("induct:count", algo.Times[cur] == old_t + 1, "Times of the serving learner is %s, expected %s" % (algo.Times[cur], old_t + 1))
    ctx.check_eq("induct:score_is_mean", algo.V_reward[cur] * (old_t + 1), old_S + r, "score*(count+1) != old sum + reward")
    for i in range(len(algo.V_algo)):
        if i != cur:
            ctx.check("induct:others_untouched", (algo.V_reward[i] is V[i]) and ctx.holds(algo.Times[i] == times[i]), "learner %d changed although it did not serve the round" % i)
    ctx.check("induct:learners_only_added", len(algo.V_algo) >= n_before - (1 if created_now else 0) and all(x is y for x, y in zip(algo.V_algo, stubs)) or created_now, "learner list reordered")
    # schedule invariant re-established: n / N is the per-learner count (m, or m+1 after a completed sweep)
    if mode == "create":
        ctx.check("induct:n_over_N_is_the_count", ctx.holds(algo.n == m * algo.N), "after the round n=%s, N=%s: n/N is no longer the number of rounds per learner (m)" % (algo.n, algo.N))
        if cur == L - 1 and ctx.holds(counter + 1 >= m):
            ctx.check("induct:doubling", algo.N == 2 * N, "all N learners complete but N was not doubled")
    if mode == "sweep":
        if cur + 1 < L:
            ctx.check("induct:schedule", algo.algo_counter == cur + 1 and ctx.holds(algo.n == m * N), "cursor/n after the round")
        else:
            ctx.check("induct:schedule", algo.algo_counter == 0 and ctx.holds(algo.n == (m + 1) * N), "a completed sweep must add N to n and reset the cursor")
