"""C05 — T-HOO, HCT and VHCT pull the cell chosen by the published optimistic index."""
from harness.common import arity
from harness.runlevel import drive, DEFAULTS
from harness.treeref import TreeRef

PROPERTY = "C05"
WHICH = {"index": True, "growth": False}
ASSUMPTIONS = [
    "the reference (harness/treeref.py) recomputes U, B, thresholds and the admissible refresh epochs from the harness' own ledger of (cell, reward) pairs; the implementation's stored u/b values are proved equal to it (|diff| <= 1e-9) on every path",
    "parameter tuples satisfy c1*delta <= 1/2 so that the two clamps of delta~ used by the code coincide with the published one (DESIGN §5a.3)",
    "at rounds crossing a power of two the published pseudo-code and the implementation order 'refresh' and 'increment t' differently; both epochs are admitted (DESIGN §5a.2); ties between sibling B-values may be broken either way",
    "t+ = smallest power of two >= t is compared with the code's compute_t_plus for every t up to 2^17 (thorough 2^22) by plain evaluation (a one-argument integer function; compute_t_plus(2^29) = 2^30 is a known rounding effect outside this range)",
    "kernel configurations: compute_u_value / compute_tau_hi_value of the three node classes on a directly constructed node (depth 0..4, 1..3 symbolic rewards) with SYMBOLIC nu>0, 0<rho<1, c>0, 0<delta~<=1/2, bound>0, rounds>=2: sqrt exact, log uninterpreted and shared by both sides (QF_UFNRA)",
    "confidence widths are concrete on a path (counts and parameters are concrete) and computed by libm; VHCT's variance-dependent widths/thresholds are symbolic (sqrt exact, QF_NRA)",
]
TIMEOUT_MS = {"quick": 10000, "thorough": 30000}

GRID = {
    "T_HOO": [{}, {"nu": 1, "rho": 0.9}, {"nu": 0.1, "rho": 0.5}, {"nu": 10, "rho": 0.3, "rounds": 1000}, {"nu": 0.3, "rho": 0.5}, {"nu": 0.15, "rho": 0.5}, {"nu": 0.02, "rho": 0.5}, {"nu": 0.05, "rho": 0.8, "rounds": 64},
              # truncation ratio in (-1, 0) (ceil = 0: only the root is ever split), in (0, 1) and in (2, 3) with rho != 1/2 (seed S-C06-7)
              {"nu": 0.07, "rho": 0.5}, {"nu": 0.6, "rho": 0.25, "rounds": 30}, {"nu": 2.5, "rho": 0.7, "rounds": 40},
              # the ratio an exact integer (n * nu^2 = rho^(-2k)): k = 2, 0, 1 - the published bound is then unambiguous (seeds S-C06-8, S-C06-9)
              {"rounds": 16}, {"nu": 0.25, "rho": 0.5, "rounds": 16}, {"nu": 0.5, "rho": 0.25, "rounds": 64}],
    "HCT": [{}, {"c": 0.1}, {"nu": 0.1, "rho": 0.5}, {"nu": 10, "rho": 0.3, "c": 0.5}, {"c": 0.35, "delta": 0.1}],
    "VHCT": [{}, {"c": 0.1}, {"bound": 2, "c": 0.05}],
}
T_OF = {"T_HOO": (6, 8), "HCT": (7, 10), "VHCT": (3, 4)}


def bounds(tier):
    q = 0 if tier == "quick" else 1
    return {"rounds_T": {k: v[q] for k, v in T_OF.items()}, "parameter_grid": GRID,
            "partitions": "B, RB, DB, K3, RK3, K2 (quick) + K4, K5, RK2, RK4 (thorough)", "dimensions": [1, 2] if q == 0 else [1, 2, 3],
            "outside": "longer histories, parameters off the grid, c1*delta > 1/2, rounding of symbolic arithmetic"}


def configs(tier, seed, prefix="index"):
    q = 0 if tier == "quick" else 1
    out = []
    parts = ["B", "RB", "DB", "K3", "RK3", "K2"] + (["K4", "K5", "RK2", "RK4"] if q else [])
    for algo, (Tq, Tt) in T_OF.items():
        T = Tt if q else Tq
        for gi, g in enumerate(GRID[algo]):
            for part in (parts if gi == 0 else ["B", "K3"]):
                for d in ((1, 2) if q == 0 else (1, 2, 3)):
                    if d > 1 and (gi > 0 or part not in ("B", "DB", "K3", "RB")):
                        continue
                    Td = T if d == 1 else max(2, T - 2 * (d - 1))
                    if gi > 0:
                        Td = max(2, Td - 1)
                    if algo == "HCT" and gi == 0 and part == "B" and d == 1:
                        Td = 9 if q == 0 else 11  # reaches the refresh of round 8 with cells last pulled before round 4
                    name = "%s-%s-%s-d%d-T%d-g%d" % (prefix, algo, part, d, Td, gi)
                    out.append({"name": name, "algo": algo, "part": part, "d": d, "T": Td, "params": g, "cost": Td * d * arity(part, d) * (5 if algo == "VHCT" else 1)})
    # Mode B: concrete box and concrete objective-like prefix of P rounds, then k symbolic rounds
    for algo, Ps in (("T_HOO", (15, 31, 60)), ("HCT", (7, 15, 16, 31, 63, 127)), ("VHCT", (7, 15, 31))):
        for P in Ps:
            for part in ("B", "K3", "RB"):
                for sd, extra in ((0, {}), (1, {"negative": True, "noise": 0.6}), (2, {"noise": 1.0}), (3, {"noise": 0.05})):
                    if part != "B" and (sd in (1, 3) or P > 31):
                        continue
                    k = 3 if q == 0 else 4
                    if algo == "VHCT":
                        k = 1 if q == 0 else 2
                    pre = dict({"P": P, "k": k, "seed": sd, "peak": (0.3, 0.8, 0.55, 0.1)[sd], "noise": 0.25}, **extra)
                    out.append({"name": "%s-%s-%s-d1-P%d+%d-s%d" % (prefix, algo, part, P, k, sd), "algo": algo, "part": part, "d": 1, "T": P + k,
                                "params": GRID[algo][1] if (algo == "HCT" and sd in (1, 2)) else {}, "prefix": pre, "cost": P * 4 * (5 if algo == "VHCT" else 1)})
    for algo, P in (("T_HOO", 30), ("HCT", 30), ("VHCT", 30)):
        pre = {"P": P, "k": 1, "seed": 5, "peak": 0.3, "noise": 0.9, "pattern": "clip_int"}
        out.append({"name": "%s-%s-B-d1-P%d+1-clipint" % (prefix, algo, P), "algo": algo, "part": "B", "d": 1, "T": P + 1, "params": {}, "prefix": pre, "cost": P * 5})
    for algo, P in (("T_HOO", 40), ("HCT", 40), ("VHCT", 40)):
        pre = {"P": P, "k": 1, "seed": 2, "peak": 0.55, "noise": 1.0, "offset": -1048576.0}
        out.append({"name": "%s-%s-B-d1-P%d+1-offset" % (prefix, algo, P), "algo": algo, "part": "B", "d": 1, "T": P + 1, "params": {}, "prefix": pre, "cost": P * 5})
    # across the doubling epoch at round 512/513 (HCT, VHCT) and 1024/1025 (thorough): t+ and with it every threshold and
    # confidence width change there; the 511 (1023) concrete rounds before are checked like any other round (seed S-C05-6)
    for algo, P, k in (("HCT", 511, 3), ("VHCT", 512, 1)) + ((("HCT", 1023, 3), ("VHCT", 1024, 1)) if q else ()):
        pre = {"P": P, "k": k, "seed": 0, "peak": 0.3, "noise": 0.25}
        out.append({"name": "%s-%s-B-d1-P%d+%d-s0" % (prefix, algo, P, k), "algo": algo, "part": "B", "d": 1, "T": P + k, "params": {}, "prefix": pre, "cost": P * 4})
    # t+ (the smallest power of two >= t) for every round number up to 2^17 (thorough 2^22): a function of the round counter
    # alone, the same for every parameter setting, on which every threshold and confidence width of HCT / VHCT depends
    for algo in ("HCT", "VHCT"):
        out.append({"name": "%s-tplus-%s-t1..2^%d" % (prefix, algo, 17 if q == 0 else 22), "mode": "tplus", "algo": algo, "top": 2 ** (17 if q == 0 else 22), "part": "B", "d": 1, "T": 0, "cost": 5})
    if prefix == "index":
        for algo in ("T_HOO", "HCT", "VHCT"):
            for h in (0, 1, 2, 3, 4):
                for m in ((1, 2, 3) if algo != "VHCT" else (1, 2)):
                    out.append({"name": "kernel-%s-h%d-m%d" % (algo, h, m), "mode": "kernel", "algo": algo, "h": h, "m": m, "part": "B", "d": 1, "T": 0, "cost": 50 if algo == "VHCT" else 5})
    # variance first grows then shrinks on every cell (per-point rewards 1,0,1,0,0.5,0.5,...): VHCT thresholds move both ways
    for (cc, P) in ((0.35, 17), (0.35, 20), (0.5, 47), (0.2252, 60)) + (((0.1, 150), (0.2252, 230)) if q else ()):
        pre = {"P": P, "k": 3, "seed": 0, "pattern": "spread_flat"}
        out.append({"name": "%s-VHCT-B-d1-P%d+3-spreadflat-c%s" % (prefix, P, cc), "algo": "VHCT", "part": "B", "d": 1, "T": P + 3,
                    "params": {"c": cc}, "prefix": pre, "cost": P * 5})
    out.append({"name": "twin-" + prefix, "algo": "HCT", "part": "B", "d": 1, "T": 3, "params": {}, "twin": True, "expect_fail": "twin"})
    return out


def setup(mods_):
    from sx import ufmodel
    ufmodel.install()


def run_kernel(ctx, cfg):
    """compute_u_value / compute_tau_hi_value of one node class on a directly constructed node with
    symbolic rewards AND symbolic parameters: the published formula for every parameter value"""
    from harness.common import mods
    from harness.treeref import mean_of, var_of, fsqrt
    from sx import ufmodel
    from sx.engine import CeilSym, Sym
    ufmodel.reset()
    import math as _math

    def flog(x):
        return x.log() if isinstance(x, Sym) else _math.log(x)

    algo, h, m = cfg["algo"], cfg["h"], cfg["m"]
    mod = mods()[{"T_HOO": "HOO"}.get(algo, algo)]
    cls = getattr(mod, {"T_HOO": "HOO_node", "HCT": "HCT_node", "VHCT": "VHCT_node"}[algo])
    node = cls(h, 1, None, [[0.0, 1.0]])
    rs = [ctx.real("r%d" % i) for i in range(m)]
    for r in rs:
        ctx.call("update_reward", node.update_reward, r)
    nu = ctx.real("nu")
    rho = ctx.real("rho")
    ctx.assume(nu > 0)
    ctx.assume(rho > 0)
    ctx.assume(rho < 1)
    mean = mean_of(rs)
    if algo == "T_HOO":
        n = ctx.real("rounds", 2)
        ctx.call("compute_u_value", node.compute_u_value, nu=nu, rho=rho, rounds=n)
        want = mean + nu * rho ** h + fsqrt(2 * flog(n) / m)
        ctx.check_eq("kernel:u_value", node.get_u_value(), want, "T-HOO U-value != mean + nu*rho^h + sqrt(2 ln n / T) for symbolic nu, rho, n")
        return
    c = ctx.real("c")
    dt = ctx.real("delta_tilde")
    ctx.assume(c > 0)
    ctx.assume(dt > 0)
    ctx.assume(dt <= 0.5)
    L = flog(1 / dt)
    if algo == "HCT":
        ctx.call("compute_u_value", node.compute_u_value, nu=nu, rho=rho, c=c, delta_tilde=dt)
        want = mean + nu * rho ** h + c * fsqrt(L / m)
        ctx.check_eq("kernel:u_value", node.get_u_value(), want, "HCT U-value != mean + nu*rho^h + c*sqrt(ln(1/delta~)/T) for symbolic nu, rho, c, delta~")
        return
    b = ctx.real("bound")
    ctx.assume(b > 0)
    V = var_of(rs, 1e-3)
    ctx.call("compute_u_value", node.compute_u_value, nu=nu, rho=rho, c=c, bound=b, delta_tilde=dt)
    want = mean + nu * rho ** h + fsqrt(2 * c * c * V * L / m) + 3 * b * c * c * L / m
    ctx.check_eq("kernel:u_value", node.get_u_value(), want, "VHCT U-value != mean + nu*rho^h + sqrt(2 c^2 V ln(1/delta~)/T) + 3 b c^2 ln(1/delta~)/T")
    ctx.call("compute_tau_hi_value", node.compute_tau_hi_value, nu=nu, rho=rho, c=c, bound=b, delta_tilde=dt)
    tau = node.get_tau_hi_value()
    k = 3 * b * nu * rho ** h
    x = (V + k + V * fsqrt(1 + 2 * k / V)) * (c * c * L * rho ** (-2 * h) / (nu * nu))
    if isinstance(tau, CeilSym):
        ctx.check_eq("kernel:tau", Sym(tau.arg), x, "VHCT threshold is not the ceiling of the published expression")
    elif not ctx.symbolic:
        xf = float(x)
        ok = float(tau) == _math.ceil(xf) or abs(xf - round(xf)) < 1e-9 * max(1.0, abs(xf)) and abs(float(tau) - round(xf)) <= 1
        ctx.check("kernel:tau", ok, "VHCT threshold %r is not the ceiling of the published expression %r" % (tau, xf))
    else:
        ctx.fail("kernel:tau", "threshold is not a ceiling: %r" % (tau,))


def run_tplus(ctx, cfg):
    from harness.common import mods
    f = mods()[cfg["algo"]].compute_t_plus
    bad = []
    for x in range(1, cfg["top"] + 1):
        want = 1 << (x - 1).bit_length()
        got = f(x)
        if got != want:
            bad.append((x, float(got), want))
            if len(bad) > 5:
                break
    ctx.check("kernel:t_plus", not bad, "compute_t_plus(t) is not the smallest power of two >= t for t in %s (t, got, expected)" % (bad[:5],))
    ctx.count("sym:tplus_sweep")


def run(ctx, cfg):
    if cfg.get("mode") == "kernel":
        return run_kernel(ctx, cfg)
    if cfg.get("mode") == "tplus":
        return run_tplus(ctx, cfg)
    ref = TreeRef(**WHICH)
    algo, dom, rs, lp = drive(ctx, cfg, [ref], last_point=False)
    if cfg.get("twin"):
        n = algo.partition.get_node_list()[1][0]
        ctx.check_eq("twin", n.get_u_value(), rs[0], "reachability witness: deliberately false")
