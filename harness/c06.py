"""C06 — tree bandits grow only at the pulled leaf, under the published rule."""
from harness import c05
from harness.runlevel import drive
from harness.treeref import TreeRef

PROPERTY = "C06"
ASSUMPTIONS = c05.ASSUMPTIONS[1:] + [
    "make_children is observed by wrapping it per partition instance; 'expanded exactly when' is checked in both directions against the reference threshold (T >= ceil(x) <=> T >= x for integer T), with the admissible epochs of DESIGN §5a.2",
]
TIMEOUT_MS = c05.TIMEOUT_MS
bounds = c05.bounds


def configs(tier, seed):
    return c05.configs(tier, seed, prefix="growth")


def run(ctx, cfg):
    if cfg.get("mode") == "tplus":
        return c05.run_tplus(ctx, cfg)
    ref = TreeRef(index=False, growth=True)
    algo, dom, rs, lp = drive(ctx, cfg, [ref], last_point=False)
    if cfg.get("twin"):
        ctx.check_ge("twin", rs[0], rs[1], "reachability witness: deliberately false")
