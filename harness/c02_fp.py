"""Floating-point lemmas of C02 (DESIGN §1.4), obtained by running the real partition / NumPy
code on z3 FloatingPoint proxies and proving each obligation separately."""
import math
import time
import warnings

import numpy as np
import z3

from harness.common import mods, partition_class
from sx.fp import FPSession, SymFP, FPInconclusive, fp_to_float


def _pre(S, lo, hi, strict):
    eb = S.eb
    emax = 2 ** (eb - 1) - 1
    big = S.val(2.0 ** (emax - 1))
    for v in (lo, hi):
        S.assume(z3.Not(z3.fpIsNaN(v.e)))
        S.assume(z3.Not(z3.fpIsInf(v.e)))
        S.assume(z3.fpLEQ(z3.fpAbs(v.e), big))
    S.assume(z3.fpLT(lo.e, hi.e) if strict else z3.fpLEQ(lo.e, hi.e))
    return "finite, |lo|,|hi| <= 2^%d, lo %s hi" % (emax - 1, "<" if strict else "<=")


def lemma_mid(eb, sb, timeout_s=900):
    """L-mid: the representative (lo+hi)/2 computed by the real P_node lies in [lo,hi]; the children of
    the real Binary / DimensionBinary split are [lo,mid],[mid,hi] with shared faces the same term"""
    t0 = time.time()
    S = FPSession(eb, sb, timeout_ms=timeout_s * 1000)
    lo, hi = S.var("lo"), S.var("hi")
    pre = _pre(S, lo, hi, strict=False)
    m = mods()
    node = m["Node"].P_node(0, 1, None, [[lo, hi]])
    mid = node.get_cpoint()[0]
    obligations, res = [], []
    structural = []
    solver_obl = []
    for kind in ("B", "DB"):
        part = partition_class(kind)(domain=[[lo, hi]])
        part.make_children(part.get_root(), newlayer=True)
        ch = part.get_root().get_children()
        d0, d1 = ch[0].get_domain()[0], ch[1].get_domain()[0]
        same = len(ch) == 2 and d0[0].e.eq(lo.e) and d1[1].e.eq(hi.e) and d0[1].e.eq(d1[0].e) and d0[1].e.eq(mid.e)
        if same or len(ch) != 2:
            structural.append(("%s: children are [lo,mid],[mid,hi] with the very same terms" % kind, bool(same)))
        else:
            # the code computes the faces in another way: the property only asks for bit-identical outer and shared faces and
            # ordered boundaries, so these become solver obligations over the terms the code produced
            for nm, prop in (("lower outer face is the parent's (bit-exact)", z3.fpEQ(d0[0].e, lo.e)), ("upper outer face is the parent's (bit-exact)", z3.fpEQ(d1[1].e, hi.e)),
                             ("shared face bit-identical", z3.BoolVal(True) if d0[1].e.eq(d1[0].e) else z3.fpEQ(d0[1].e, d1[0].e)),
                             ("lo <= shared face", z3.fpLEQ(lo.e, d0[1].e)), ("shared face <= hi", z3.fpLEQ(d0[1].e, hi.e))):
                solver_obl.append((kind, "%s: %s" % (kind, nm), prop))
    status = "holds"
    witness = None
    for name, prop in (("lo <= (lo+hi)/2", z3.fpLEQ(lo.e, mid.e)), ("(lo+hi)/2 <= hi", z3.fpLEQ(mid.e, hi.e)), ("(lo+hi)/2 is finite", z3.Not(z3.Or(z3.fpIsInf(mid.e), z3.fpIsNaN(mid.e))))):
        st, model = S.prove(prop)
        res.append((name, st))
        if st == "violated":
            status = "violated"
            witness = {"lo": fp_to_float(model, lo.e), "hi": fp_to_float(model, hi.e), "obligation": name}
            break
        if st == "unknown" and status == "holds":
            status = "unknown"
    for name, ok in structural:
        res.append((name, "holds" if ok else "violated"))
        if not ok:
            status = "violated"
            witness = witness or {"obligation": name}
    replayable = (eb, sb) == (11, 53)
    for kind, name, prop in solver_obl:
        if status == "violated":
            break
        st, model = S.prove(prop)
        res.append((name, st))
        if st == "violated":
            status = "violated"
            witness = {"lo": fp_to_float(model, lo.e), "hi": fp_to_float(model, hi.e), "obligation": name, "kind": kind}
            w64 = binary64_witness(None, witness["lo"], witness["hi"], fails=lambda a, b, _K, kind=kind: split_concrete_failures(kind, a, b))
            if w64 is not None:
                witness = dict(w64, obligation=name, kind=kind, reduced_precision_model={"lo": witness["lo"], "hi": witness["hi"]},
                               note="solver: not a theorem in binary(%d,%d); binary64 box located by concrete search and confirmed on the unshimmed code" % (eb, sb))
                replayable = True
        elif st == "unknown" and status == "holds":
            status = "unknown"
    return {"lemma": "L-mid binary(%d,%d)" % (eb, sb), "status": status, "precondition": pre, "term": str(mid.e), "obligations": res,
            "queries": S.queries, "solver_s": round(S.solver_s, 2), "wall_s": round(time.time() - t0, 2), "witness": witness,
            "replayable": replayable}


def lemma_kary(eb, sb, K, timeout_s=900):
    """L-kary: boundaries produced by the real KaryPartition (np.linspace) are ordered, start at lo
    bit-exactly, end at hi, neighbours share the same term (precondition: the step is a normal number)"""
    t0 = time.time()
    S = FPSession(eb, sb, timeout_ms=timeout_s * 1000)
    lo, hi = S.var("lo"), S.var("hi")
    pre = _pre(S, lo, hi, strict=True)
    step = z3.fpDiv(z3.RNE(), z3.fpSub(z3.RNE(), hi.e, lo.e), S.val(float(K)))
    S.assume(z3.fpIsNormal(step))
    pre += ", (hi-lo)/K normal"
    base = mods()["KaryPartition"].KaryPartition
    status, res, witness = "holds", [], None
    try:
        with warnings.catch_warnings():
            warnings.simplefilter("ignore")
            part = base(domain=[[lo, hi]], K=K)
            part.make_children(part.get_root(), newlayer=True)
    except FPInconclusive as ex:
        return {"lemma": "L-kary binary(%d,%d) K=%d" % (eb, sb, K), "status": "unknown", "detail": str(ex), "queries": S.queries, "solver_s": round(S.solver_s, 2),
                "wall_s": round(time.time() - t0, 2), "obligations": [], "replayable": False}
    ch = part.get_root().get_children()
    doms = [c.get_domain()[0] for c in ch]
    obl = [("number of children = K", None, len(ch) == K)]
    obl.append(("first boundary is lo (bit-exact)", z3.fpEQ(doms[0][0].e, lo.e), None))
    obl.append(("last boundary is hi (bit-exact)", z3.fpEQ(doms[-1][1].e, hi.e), None))
    for j in range(K):
        obl.append(("boundary %d <= boundary %d" % (j, j + 1), z3.fpLEQ(doms[j][0].e, doms[j][1].e), None))
        if j + 1 < K:
            obl.append(("children %d,%d share the same term" % (j, j + 1), None, bool(doms[j][1].e.eq(doms[j + 1][0].e))))
    for name, prop, conc in obl:
        if prop is None:
            st = "holds" if conc else "violated"
            model = None
        else:
            st, model = S.prove(prop)
        res.append((name, st))
        if st == "violated":
            status = "violated"
            witness = {"obligation": name}
            if model is not None:
                witness.update(lo=fp_to_float(model, lo.e), hi=fp_to_float(model, hi.e))
            break
        if st == "unknown" and status == "holds":
            status = "unknown"
    replayable = (eb, sb) == (11, 53)
    if status == "violated" and not replayable:
        w64 = binary64_witness(K, (witness or {}).get("lo"), (witness or {}).get("hi"))
        if w64 is not None:
            witness = dict(w64, obligation=witness["obligation"], reduced_precision_model={k: witness.get(k) for k in ("lo", "hi")},
                           note="solver: not a theorem in binary(%d,%d); binary64 box located by concrete search and confirmed on the unshimmed code" % (eb, sb))
            replayable = True
    return {"lemma": "L-kary binary(%d,%d) K=%d" % (eb, sb, K), "status": status, "precondition": pre, "term_boundary_1": str(doms[0][1].e)[:200], "obligations": res,
            "queries": S.queries, "solver_s": round(S.solver_s, 2), "wall_s": round(time.time() - t0, 2), "witness": witness, "replayable": replayable}


def kary_concrete_failures(lo, hi, K):
    """the obligations of L-kary evaluated on plain doubles by the real (unshimmed) KaryPartition; None if the
    precondition of the lemma does not hold for this box"""
    if not (math.isfinite(lo) and math.isfinite(hi) and lo < hi and abs(lo) <= 2.0 ** 1022 and abs(hi) <= 2.0 ** 1022):
        return None
    step = (hi - lo) / K
    if not (math.isfinite(step) and abs(step) >= 2.0 ** -1022):
        return None
    base = mods()["KaryPartition"].KaryPartition
    with warnings.catch_warnings():
        warnings.simplefilter("ignore")
        part = base(domain=[[lo, hi]], K=K)
        part.make_children(part.get_root(), newlayer=True)
    doms = [[float(c.get_domain()[0][0]), float(c.get_domain()[0][1])] for c in part.get_root().get_children()]
    bad = []
    if len(doms) != K:
        bad.append("number of children = %d" % len(doms))
        return bad
    if doms[0][0] != lo:
        bad.append("first boundary %r is not lo %r" % (doms[0][0], lo))
    if doms[-1][1] != hi:
        bad.append("last boundary %r is not hi %r" % (doms[-1][1], hi))
    for j in range(K):
        if not doms[j][0] <= doms[j][1]:
            bad.append("boundary %d > boundary %d" % (j, j + 1))
        if j + 1 < K and doms[j][1] != doms[j + 1][0]:
            bad.append("children %d,%d do not share their face: %r vs %r" % (j, j + 1, doms[j][1], doms[j + 1][0]))
    return bad


def split_concrete_failures(kind, lo, hi):
    """the face obligations of a binary split (B / DB in one dimension) on plain doubles with the unshimmed code"""
    if not (math.isfinite(lo) and math.isfinite(hi) and lo < hi and abs(lo) <= 2.0 ** 1022 and abs(hi) <= 2.0 ** 1022):
        return None
    part = partition_class(kind)(domain=[[lo, hi]])
    part.make_children(part.get_root(), newlayer=True)
    ch = part.get_root().get_children()
    if len(ch) != 2:
        return ["number of children = %d" % len(ch)]
    d0, d1 = [float(v) for v in ch[0].get_domain()[0]], [float(v) for v in ch[1].get_domain()[0]]
    bad = []
    if d0[0] != lo:
        bad.append("lower outer face %r is not the parent's %r" % (d0[0], lo))
    if d1[1] != hi:
        bad.append("upper outer face %r is not the parent's %r" % (d1[1], hi))
    if d0[1] != d1[0]:
        bad.append("children do not share their face: %r vs %r" % (d0[1], d1[0]))
    if not lo <= d0[1] <= hi:
        bad.append("shared face %r outside [%r, %r]" % (d0[1], lo, hi))
    return bad


def binary64_witness(K, lo0, hi0, budget=60000, fails=None):
    """a reduced-precision counterexample (lo0, hi0) says the obligation is not a theorem of IEEE arithmetic for this code;
    to report it against the binary64 library a binary64 box on which the real code fails is needed.  Candidates: the model
    itself (its values are doubles), its scalings and one-ulp neighbours, then a deterministic bank of boxes (integers,
    decimals, boxes straddling 0, random doubles).  Only a box on which the unshimmed code fails is returned."""
    import random as _random
    rnd = _random.Random(20240229)
    cands = []
    if lo0 is not None and hi0 is not None and math.isfinite(lo0) and math.isfinite(hi0):
        for sc in (1.0, 2.0, 0.5, 3.0, 10.0, 0.1, 1e3, 1e-3):
            cands.append((lo0 * sc, hi0 * sc))
            cands.append((math.nextafter(lo0 * sc, -math.inf), hi0 * sc))
            cands.append((lo0 * sc, math.nextafter(hi0 * sc, math.inf)))
    for a in (-3, -1, 0, 1, 2, 5, 10, -32.768, -5.12, -600, 0.1, 0.3):
        for w in (1, 2, 3, 4, 7, 10, 0.1, 0.7, 1.3, 65.536, 1200):
            cands.append((float(a), float(a) + w))
    while len(cands) < budget:
        kind = rnd.randrange(4)
        if kind == 0:
            a = rnd.uniform(-10, 10); b = a + rnd.uniform(1e-3, 20)
        elif kind == 1:
            a = rnd.uniform(-1, 1) * 10 ** rnd.randint(-6, 6); b = a + abs(a) * rnd.uniform(1e-6, 3) + 1e-300
        elif kind == 2:
            a = -rnd.uniform(0, 1) * 10 ** rnd.randint(-3, 3); b = rnd.uniform(0, 1) * 10 ** rnd.randint(-3, 3)
        else:
            a = float(rnd.randint(-1000, 1000)); b = a + rnd.randint(1, 1000) / rnd.choice((1, 2, 3, 7, 10, 100))
        cands.append((a, b))
    tried = 0
    for lo, hi in cands:
        try:
            bad = (fails or kary_concrete_failures)(lo, hi, K)
        except Exception:  # noqa
            continue
        if bad is None:
            continue
        tried += 1
        if bad:
            return {"lo": lo, "hi": hi, "K": K, "failures": bad[:3], "boxes_tried": tried}
    return None


def replay(result):
    """re-run the real code on the doubles of a binary64 counterexample"""
    w = result.get("witness") or {}
    if "lo" not in w:
        return False
    lo, hi = w["lo"], w["hi"]
    if w.get("K") is not None:
        return bool(kary_concrete_failures(lo, hi, w["K"]))
    if w.get("kind") in ("B", "DB"):
        return bool(split_concrete_failures(w["kind"], lo, hi))
    m = mods()
    node = m["Node"].P_node(0, 1, None, [[lo, hi]])
    mid = node.get_cpoint()[0]
    return not (lo <= mid <= hi) or math.isinf(mid) or math.isnan(mid)


def run_lemma(spec):
    fn = {"mid": lemma_mid, "kary": lemma_kary}[spec["fn"]]
    try:
        return fn(**spec["kw"])
    except Exception as ex:  # noqa
        import traceback
        return {"lemma": spec["name"], "status": "error", "detail": "%s: %s\n%s" % (type(ex).__name__, ex, traceback.format_exc()[-800:])}


def specs(tier):
    out = [{"name": "L-mid binary16", "fn": "mid", "kw": {"eb": 5, "sb": 11, "timeout_s": 120}},
           {"name": "L-mid binary32", "fn": "mid", "kw": {"eb": 8, "sb": 24, "timeout_s": 300}},
           {"name": "L-kary binary16 K=2", "fn": "kary", "kw": {"eb": 5, "sb": 11, "K": 2, "timeout_s": 300}},
           {"name": "L-kary binary16 K=3", "fn": "kary", "kw": {"eb": 5, "sb": 11, "K": 3, "timeout_s": 300}}]
    if tier == "thorough":
        out += [{"name": "L-mid binary64", "fn": "mid", "kw": {"eb": 11, "sb": 53, "timeout_s": 1800}},
                {"name": "L-kary binary16 K=4", "fn": "kary", "kw": {"eb": 5, "sb": 11, "K": 4, "timeout_s": 1800}},
                {"name": "L-kary binary16 K=5", "fn": "kary", "kw": {"eb": 5, "sb": 11, "K": 5, "timeout_s": 1800}},
                {"name": "L-kary binary32 K=2", "fn": "kary", "kw": {"eb": 8, "sb": 24, "K": 2, "timeout_s": 1800}},
                {"name": "L-kary binary32 K=3", "fn": "kary", "kw": {"eb": 8, "sb": 24, "K": 3, "timeout_s": 1800}}]
    return out
