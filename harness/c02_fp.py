"""Floating-point lemmas of C02 (DESIGN §1.4), obtained by running the real partition / NumPy
code on z3 FloatingPoint proxies and proving each obligation separately."""
import math
import time
import warnings

import numpy as np
import z3

from harness.common import mods, partition_class
from sx.fp import FPSession, SymFP, FPInconclusive, fp_to_float


def _pre(S, lo, hi, strict):
    eb = S.eb
    emax = 2 ** (eb - 1) - 1
    big = S.val(2.0 ** (emax - 1))
    for v in (lo, hi):
        S.assume(z3.Not(z3.fpIsNaN(v.e)))
        S.assume(z3.Not(z3.fpIsInf(v.e)))
        S.assume(z3.fpLEQ(z3.fpAbs(v.e), big))
    S.assume(z3.fpLT(lo.e, hi.e) if strict else z3.fpLEQ(lo.e, hi.e))
    return "finite, |lo|,|hi| <= 2^%d, lo %s hi" % (emax - 1, "<" if strict else "<=")


def lemma_mid(eb, sb, timeout_s=900):
    """L-mid: the representative (lo+hi)/2 computed by the real P_node lies in [lo,hi]; the children of
    the real Binary / DimensionBinary split are [lo,mid],[mid,hi] with shared faces the same term"""
    t0 = time.time()
    S = FPSession(eb, sb, timeout_ms=timeout_s * 1000)
    lo, hi = S.var("lo"), S.var("hi")
    pre = _pre(S, lo, hi, strict=False)
    m = mods()
    node = m["Node"].P_node(0, 1, None, [[lo, hi]])
    mid = node.get_cpoint()[0]
    obligations, res = [], []
    structural = []
    for kind in ("B", "DB"):
        part = partition_class(kind)(domain=[[lo, hi]])
        part.make_children(part.get_root(), newlayer=True)
        ch = part.get_root().get_children()
        d0, d1 = ch[0].get_domain()[0], ch[1].get_domain()[0]
        structural.append(("%s: children are [lo,mid],[mid,hi] with the very same terms" % kind,
                           d0[0].e.eq(lo.e) and d1[1].e.eq(hi.e) and d0[1].e.eq(d1[0].e) and d0[1].e.eq(mid.e)))
    status = "holds"
    witness = None
    for name, prop in (("lo <= (lo+hi)/2", z3.fpLEQ(lo.e, mid.e)), ("(lo+hi)/2 <= hi", z3.fpLEQ(mid.e, hi.e)), ("(lo+hi)/2 is finite", z3.Not(z3.Or(z3.fpIsInf(mid.e), z3.fpIsNaN(mid.e))))):
        st, model = S.prove(prop)
        res.append((name, st))
        if st == "violated":
            status = "violated"
            witness = {"lo": fp_to_float(model, lo.e), "hi": fp_to_float(model, hi.e), "obligation": name}
            break
        if st == "unknown" and status == "holds":
            status = "unknown"
    for name, ok in structural:
        res.append((name, "holds" if ok else "violated"))
        if not ok:
            status = "violated"
            witness = witness or {"obligation": name}
    return {"lemma": "L-mid binary(%d,%d)" % (eb, sb), "status": status, "precondition": pre, "term": str(mid.e), "obligations": res,
            "queries": S.queries, "solver_s": round(S.solver_s, 2), "wall_s": round(time.time() - t0, 2), "witness": witness,
            "replayable": (eb, sb) == (11, 53)}


def lemma_kary(eb, sb, K, timeout_s=900):
    """L-kary: boundaries produced by the real KaryPartition (np.linspace) are ordered, start at lo
    bit-exactly, end at hi, neighbours share the same term (precondition: the step is a normal number)"""
    t0 = time.time()
    S = FPSession(eb, sb, timeout_ms=timeout_s * 1000)
    lo, hi = S.var("lo"), S.var("hi")
    pre = _pre(S, lo, hi, strict=True)
    step = z3.fpDiv(z3.RNE(), z3.fpSub(z3.RNE(), hi.e, lo.e), S.val(float(K)))
    S.assume(z3.fpIsNormal(step))
    pre += ", (hi-lo)/K normal"
    base = mods()["KaryPartition"].KaryPartition
    status, res, witness = "holds", [], None
    try:
        with warnings.catch_warnings():
            warnings.simplefilter("ignore")
            part = base(domain=[[lo, hi]], K=K)
            part.make_children(part.get_root(), newlayer=True)
    except FPInconclusive as ex:
        return {"lemma": "L-kary binary(%d,%d) K=%d" % (eb, sb, K), "status": "unknown", "detail": str(ex), "queries": S.queries, "solver_s": round(S.solver_s, 2),
                "wall_s": round(time.time() - t0, 2), "obligations": [], "replayable": False}
    ch = part.get_root().get_children()
    doms = [c.get_domain()[0] for c in ch]
    obl = [("number of children = K", None, len(ch) == K)]
    obl.append(("first boundary is lo (bit-exact)", z3.fpEQ(doms[0][0].e, lo.e), None))
    obl.append(("last boundary is hi (bit-exact)", z3.fpEQ(doms[-1][1].e, hi.e), None))
    for j in range(K):
        obl.append(("boundary %d <= boundary %d" % (j, j + 1), z3.fpLEQ(doms[j][0].e, doms[j][1].e), None))
        if j + 1 < K:
            obl.append(("children %d,%d share the same term" % (j, j + 1), None, bool(doms[j][1].e.eq(doms[j + 1][0].e))))
    for name, prop, conc in obl:
        if prop is None:
            st = "holds" if conc else "violated"
            model = None
        else:
            st, model = S.prove(prop)
        res.append((name, st))
        if st == "violated":
            status = "violated"
            witness = {"obligation": name}
            if model is not None:
                witness.update(lo=fp_to_float(model, lo.e), hi=fp_to_float(model, hi.e))
            break
        if st == "unknown" and status == "holds":
            status = "unknown"
    return {"lemma": "L-kary binary(%d,%d) K=%d" % (eb, sb, K), "status": status, "precondition": pre, "term_boundary_1": str(doms[0][1].e)[:200], "obligations": res,
            "queries": S.queries, "solver_s": round(S.solver_s, 2), "wall_s": round(time.time() - t0, 2), "witness": witness, "replayable": (eb, sb) == (11, 53)}


def replay(result):
    """re-run the real code on the doubles of a binary64 counterexample"""
    w = result.get("witness") or {}
    if "lo" not in w:
        return False
    lo, hi = w["lo"], w["hi"]
    m = mods()
    node = m["Node"].P_node(0, 1, None, [[lo, hi]])
    mid = node.get_cpoint()[0]
    return not (lo <= mid <= hi) or math.isinf(mid) or math.isnan(mid)


def run_lemma(spec):
    fn = {"mid": lemma_mid, "kary": lemma_kary}[spec["fn"]]
    try:
        return fn(**spec["kw"])
    except Exception as ex:  # noqa
        import traceback
        return {"lemma": spec["name"], "status": "error", "detail": "%s: %s\n%s" % (type(ex).__name__, ex, traceback.format_exc()[-800:])}


def specs(tier):
    out = [{"name": "L-mid binary16", "fn": "mid", "kw": {"eb": 5, "sb": 11, "timeout_s": 120}},
           {"name": "L-mid binary32", "fn": "mid", "kw": {"eb": 8, "sb": 24, "timeout_s": 300}},
           {"name": "L-kary binary16 K=2", "fn": "kary", "kw": {"eb": 5, "sb": 11, "K": 2, "timeout_s": 300}},
           {"name": "L-kary binary16 K=3", "fn": "kary", "kw": {"eb": 5, "sb": 11, "K": 3, "timeout_s": 300}}]
    if tier == "thorough":
        out += [{"name": "L-mid binary64", "fn": "mid", "kw": {"eb": 11, "sb": 53, "timeout_s": 1800}},
                {"name": "L-kary binary16 K=4", "fn": "kary", "kw": {"eb": 5, "sb": 11, "K": 4, "timeout_s": 1800}},
                {"name": "L-kary binary16 K=5", "fn": "kary", "kw": {"eb": 5, "sb": 11, "K": 5, "timeout_s": 1800}},
                {"name": "L-kary binary32 K=2", "fn": "kary", "kw": {"eb": 8, "sb": 24, "K": 2, "timeout_s": 1800}},
                {"name": "L-kary binary32 K=3", "fn": "kary", "kw": {"eb": 8, "sb": 24, "K": 3, "timeout_s": 1800}}]
    return out
