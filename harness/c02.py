"""C02 — child cells exactly tile their parent cell (one-step harness, arbitrary cell).

An arbitrary box *is* an arbitrary cell: make_children reads only the parent's domain, depth
and index.  Box bounds, split draws are solver variables; dimension choice forks over all d.
"""
from harness.common import partition_class, arity, is_equal_size, sym_box, all_nodes, label

PROPERTY = "C02"
ASSUMPTIONS = [
    "multi-step mode: every order of up to 3 (thorough 4) deepen()/make_children(leaf) operations (d = 2 also: every sequence of 5 single-leaf splits, one candidate leaf per split cell; thorough: 6 splits), after which EVERY internal cell's stored child list is re-checked (a later call must not change an earlier cell's children) and the leaves' total length equals the domain's",
    "one-step argument: make_children depends only on the parent's domain/depth/index, so an arbitrary symbolic box stands for an arbitrary cell; 'leaves of any tree tile the domain' follows by induction on expansions (paper argument, DESIGN §C02) together with C03",
    "random split points are arbitrary values of the closed interval [lo, hi] of the cell (end points included)",
    "bit-identity of shared faces is decided structurally: both neighbours hold the same term (same IEEE operations on the same inputs)",
    "floating point: lemma L-mid (lo <= (lo+hi)/2 <= hi, finite, for finite lo <= hi with |lo|,|hi| <= 2^(emax-1)) and lemma L-kary (np.linspace boundaries ordered, ends bit-exact, shared faces the same term; precondition: step (hi-lo)/K normal) are proved by z3 over FloatingPoint terms obtained by running the real P_node / BinaryPartition / DimensionBinaryPartition / KaryPartition code; quick: binary16 and binary32 (L-mid), binary16 K=2,3 (L-kary); thorough adds binary64 L-mid, binary16 K=4,5 and binary32 K=2,3; binary64 linspace is out of reach of bit-blasting here; boxes with |bound| > 2^(emax-1) overflow the midpoint (finding F-ovf, bound of the claim)",
]


def bounds(tier):
    return {"classes": ["Binary", "RandomBinary", "DimensionBinary", "Kary", "RandomKary"],
            "K": [2, 6] if tier == "quick" else [2, 8], "d": [1, 3] if tier == "quick" else [1, 4],
            "cells": "root and a depth-1 cell (first/last child), both newlayer values",
            "outside": "K above the range, d above the range; floating-point rounding of boundaries is covered by the separate FP lemmas (L-mid, L-kary)"}


def configs(tier, seed):
    out = []
    Ks = range(2, 7) if tier == "quick" else range(2, 9)
    ds = (1, 2, 3) if tier == "quick" else (1, 2, 3, 4)
    kinds = ["B", "RB", "DB"] + ["K%d" % k for k in Ks] + ["RK%d" % k for k in Ks]
    for kind in kinds:
        for d in ds:
            if kind == "DB" and d > 3 and tier == "quick":
                continue
            for level in (0, 1):
                for which in ((0,) if level == 0 else (0, -1)):
                    out.append({"name": "%s-d%d-L%d%s" % (kind, d, level, "" if level == 0 else ("first" if which == 0 else "last")),
                                "kind": kind, "d": d, "level": level, "which": which, "cost": d * arity(kind, d)})
    for kind in ("B", "RB", "DB", "K3", "RK3", "K2"):
        for d in (1, 2):
            if d == 2 and kind not in ("B", "DB", "K3"):
                continue
            m = (3 if d == 1 else 2) + (1 if tier != "quick" and d == 1 else 0)
            if arity(kind, d) >= 4:
                m = 2
            out.append({"name": "multi-%s-d%d-m%d" % (kind, d, m), "mode": "multi", "kind": kind, "d": d, "m": m, "cost": 3 ** m})
    # d = 2, five successive splits of single leaves (no deepen): reaches two cells of one depth with different
    # shapes that are split along the same dimension - the situation in which anything remembered per depth,
    # per dimension or per partition object from an earlier split is stale (seed S-C02-5)
    for kind in ("B", "K2", "K3") + (("RB", "RK2", "DB") if tier != "quick" else ()):
        out.append({"name": "multi-%s-d2-splits" % kind, "mode": "multi", "kind": kind, "d": 2, "m": (3 if kind == "DB" else 5 if tier == "quick" else 6), "splits_only": True,
                    "end_leaves": True, "cost": 4000})
    # a box whose bounds are Python ints (the way most users write a domain): same assertions, concrete bounds
    for kind in ("B", "RB", "DB", "K3", "RK3"):
        for d in (1, 2):
            out.append({"name": "multi-%s-d%d-intbox" % (kind, d), "mode": "multi", "kind": kind, "d": d, "m": 2, "intbox": True, "cost": 30})
    out.append({"name": "twin-B", "kind": "B", "d": 1, "level": 0, "which": 0, "twin": True, "expect_fail": "twin"})
    out.append({"name": "twin-RK3", "kind": "RK3", "d": 2, "level": 0, "which": 0, "twin": True, "expect_fail": "twin"})
    return out


def check_split(ctx, part, parent, kind, d, tag=""):
    pd = parent.get_domain()
    before = [[a, b] for a, b in pd]
    pd_obj = pd
    n_rng = len(ctx.rng_log)
    ctx.call("make_children", part.make_children, parent, newlayer=(parent.get_depth() >= part.get_depth()))
    s = None
    for ev in ctx.rng_log[n_rng:]:
        if ev[0] == "randint":
            s = ev[1]
            break
    check_children(ctx, parent, kind, d, before=before, pd_obj=pd_obj, split_dim=s)


def find_split_dim(ctx, parent, d):
    """the dimension along which the stored children of a cell differ from it (multi-step mode)"""
    pd = parent.get_domain()
    ch = parent.get_children()
    for i in range(d):
        if not (ctx.same(ch[0].get_domain()[i][0], pd[i][0]) and ctx.same(ch[0].get_domain()[i][1], pd[i][1])):
            return i
    return 0


def check_children(ctx, parent, kind, d, before=None, pd_obj=None, split_dim=None):
    pd = parent.get_domain()
    if before is None:
        before = [[a, b] for a, b in pd]
        pd_obj = pd
    n_rng = len(ctx.rng_log)
    ch = parent.get_children()
    K = arity(kind, d)
    ctx.check("arity", ch is not None and len(ch) == K, "%d children, documented arity %d" % (len(ch or []), K))
    if not ch:
        return
    # parent's own box untouched
    after = parent.get_domain()
    same = after is pd_obj and len(after) == d and all(ctx.same(after[i][0], before[i][0]) and ctx.same(after[i][1], before[i][1]) for i in range(d))
    ctx.check("parent_domain_unchanged", same, "the parent's box changed when it was split")
    for j, c in enumerate(ch):
        cd = c.get_domain()
        ctx.check("child_dim", len(cd) == d)
        cp = c.get_cpoint()
        for i in range(d):
            lo, hi = cd[i]
            ctx.check_ge("ordered", hi, lo, "child %d dim %d: hi < lo" % (j, i))
            ctx.check_ge("inside_lo", lo, pd[i][0], "child %d dim %d below the parent" % (j, i))
            ctx.check_ge("inside_hi", pd[i][1], hi, "child %d dim %d above the parent" % (j, i))
            ctx.check_eq("centre", cp[i], (lo + hi) / 2, "child %d dim %d: representative is not the centre" % (j, i))
        for a in range(j):
            ctx.check("distinct_boxes", cd is not ch[a].get_domain(), "two children share one box object")
    if kind == "DB":
        pats = set()
        for j, c in enumerate(ch):
            cd = c.get_domain()
            pat = []
            for i in range(d):
                lo, hi = pd[i]
                mid = (lo + hi) / 2
                low_half = ctx.same(cd[i][0], lo) and ctx.holds(cd[i][1] == mid)
                up_half = ctx.same(cd[i][1], hi) and ctx.holds(cd[i][0] == mid)
                ctx.check("half", low_half or up_half, "child %d dim %d is neither half of the parent" % (j, i))
                pat.append(0 if low_half else 1)
                ctx.check_eq("equal_size", cd[i][1] - cd[i][0], (hi - lo) / 2)
            pats.add(tuple(pat))
        ctx.check("product_tiling", len(pats) == 2 ** d, "the 2^d children are not the 2^d distinct products of halves")
        # shared faces bit-identical: every upper half starts at the very term at which the lower half ends
        for i in range(d):
            lows = [c.get_domain()[i][1] for c in ch if ctx.same(c.get_domain()[i][0], pd[i][0])]
            ups = [c.get_domain()[i][0] for c in ch if ctx.same(c.get_domain()[i][1], pd[i][1])]
            ok = all(ctx.same(x, lows[0]) for x in lows + ups) if lows else False
            ctx.check("shared_face_identical", ok, "dim %d: halves do not share a bit-identical face" % i)
        return
    # single split dimension
    s = split_dim
    if s is None:
        s = 0 if d == 1 else find_split_dim(ctx, parent, d)
    if s is None:
        ctx.fail("split_dim_unknown", "no dimension draw observed")
        return
    for j, c in enumerate(ch):
        cd = c.get_domain()
        for i in range(d):
            if i != s:
                ctx.check("other_dims_untouched", ctx.same(cd[i][0], pd[i][0]) and ctx.same(cd[i][1], pd[i][1]),
                          "child %d differs from the parent in non-split dimension %d" % (j, i))
    ctx.check("outer_face_lo", ctx.same(ch[0].get_domain()[s][0], pd[s][0]), "first child does not start at the parent's own lower face")
    ctx.check("outer_face_hi", ctx.same(ch[-1].get_domain()[s][1], pd[s][1]), "last child does not end at the parent's own upper face")
    ctx.check_eq("outer_lo_value", ch[0].get_domain()[s][0], pd[s][0])
    ctx.check_eq("outer_hi_value", ch[-1].get_domain()[s][1], pd[s][1])
    for j in range(K - 1):
        a, b = ch[j].get_domain()[s][1], ch[j + 1].get_domain()[s][0]
        ctx.check_eq("chain", a, b, "children %d and %d do not meet" % (j, j + 1))
        ctx.check("shared_face_identical", ctx.same(a, b), "children %d and %d: shared boundary is not the same value" % (j, j + 1))
    if is_equal_size(kind):
        w = (pd[s][1] - pd[s][0]) / K
        for j, c in enumerate(ch):
            ctx.check_eq("equal_size", c.get_domain()[s][1] - c.get_domain()[s][0], w, "child %d width != parent width / %d" % (j, K))


def run_multi(ctx, cfg):
    """every order of m expansions (deepen / split a leaf), then EVERY internal cell's stored child list
    must still tile it and the leaves reached through the child links must tile the domain"""
    from harness.common import leaves
    kind, d, m = cfg["kind"], cfg["d"], cfg["m"]
    dom = [[-3, 5], [2, 7], [0, 1]][:d] if cfg.get("intbox") else sym_box(ctx, d)
    part = ctx.call("partition_init", partition_class(kind), domain=dom)
    trace = []
    for step in range(m):
        lv = leaves(part)
        if cfg.get("end_leaves") and len(lv) > 2:
            # one candidate per split cell (its first child that is still a leaf) - siblings are congruent
            seen, cand = set(), []
            for L in lv:
                par = L.get_parent()
                if id(par) not in seen:
                    seen.add(id(par))
                    cand.append(L)
            lv = cand
        op = ctx.choose(1 + len(lv), "op", allowed=range(1, 1 + len(lv)) if cfg.get("splits_only") else None)
        if op == 0:
            trace.append("deepen")
            ctx.call("deepen", part.deepen)
        else:
            leaf = lv[op - 1]
            trace.append("split" + label(leaf))
            ctx.call("make_children", part.make_children, leaf, newlayer=(leaf.get_depth() >= part.get_depth()))
    ctx.note(" ".join(trace))
    for n in all_nodes(part):
        if n.get_children():
            check_children(ctx, n, kind, d)
    # leaves tile the domain: total volume (1-D: total length) equals the domain's
    lv = leaves(part)
    if d == 1:
        tot = 0
        for L in lv:
            lo, hi = L.get_domain()[0]
            tot = tot + (hi - lo)
        ctx.check_eq("leaves_tile_domain", tot, dom[0][1] - dom[0][0], "the leaves' lengths do not add up to the domain's after: " + " ".join(trace))
        srt = sorted(lv, key=lambda L: L.get_index() * 0 + 0)  # order is checked through the chain of every internal cell
    ctx.count("sym:multi_step")


def run(ctx, cfg):
    if cfg.get("mode") == "multi":
        return run_multi(ctx, cfg)
    kind, d = cfg["kind"], cfg["d"]
    dom = sym_box(ctx, d)
    user = [[a, b] for a, b in dom]
    part = ctx.call("partition_init", partition_class(kind), domain=dom)
    root = part.get_root()
    for i in range(d):
        ctx.check_eq("root_centre", root.get_cpoint()[i], (dom[i][0] + dom[i][1]) / 2)
    if cfg["level"] == 0:
        check_split(ctx, part, root, kind, d)
        target = root
    else:
        ctx.call("make_children", part.make_children, root, newlayer=True)
        target = root.get_children()[cfg["which"]]
        check_split(ctx, part, target, kind, d)
    for i in range(d):
        ctx.check("user_domain_unchanged", len(dom) == d and ctx.same(dom[i][0], user[i][0]) and ctx.same(dom[i][1], user[i][1]))
    for c in target.get_children():
        ctx.observe("cp", c.get_cpoint())
    if cfg.get("twin"):
        ch = target.get_children()
        s = 0
        for ev in ctx.rng_log:
            if ev[0] == "randint":
                s = ev[1]
        ctx.check_eq("twin", ch[0].get_domain()[s][1], dom[s][1], "reachability witness: deliberately false")


# ---- floating-point lemmas (harness/c02_fp.py): the real code on z3 FloatingPoint proxies
from harness import c02_fp  # noqa: E402


def lemma_specs(tier):
    return c02_fp.specs(tier)


def run_lemma(spec):
    from sx import shims
    shims.install_conversions(shims.load_pyxab())
    return c02_fp.run_lemma(spec)


def lemma_replay(result):
    return c02_fp.replay(result)
