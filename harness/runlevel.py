"""Run-level harness vocabulary: build any algorithm from a config, drive the documented
ask/tell loop with symbolic rewards, and let per-property observers assert after each call."""
import math

from harness.common import mods, partition_class, sym_box, all_nodes, label, check_tree_invariant
from sx.engine import Sym, HarnessError
from sx import shims

# default parameter sets (DESIGN §2): chosen to hit the interesting regimes
DEFAULTS = {
    "T_HOO": {"nu": 1, "rho": 0.5, "rounds": 100},
    "HCT": {"nu": 1, "rho": 0.5, "c": 0.2252, "delta": 0.01},
    "VHCT": {"nu": 1, "rho": 0.5, "c": 0.2252, "delta": 0.01, "bound": 1},
    "POO": {"numax": 1, "rhomax": 0.9, "rounds": 100, "base": "T_HOO"},
    "GPO": {"numax": 1.0, "rhomax": 0.9, "rounds": 100, "base": "T_HOO"},
    "PCT": {"numax": 1, "rhomax": 0.9, "rounds": 100},
    "VPCT": {"numax": 1, "rhomax": 0.9, "rounds": 100},
    "DOO": {"n": 100},
    "SOO": {"n": 100, "h_max": 100},
    "StoSOO": {"n": 100, "k": 2, "h_max": 100},
    "SequOOL": {"n": 12},
    "StroquOOL": {"n": 100},
    "VROOM": {"n": 4, "h_max": 3, "b": 1, "f_max": 1},
    "Zooming": {"nu": 10, "rho": 0.9},
}

MODULE_OF = {"T_HOO": "HOO"}


def algo_class(name):
    m = mods()
    return getattr(m[MODULE_OF.get(name, name)], name)


def params_of(cfg):
    p = dict(DEFAULTS[cfg["algo"]])
    p.update(cfg.get("params", {}))
    return p


def build(ctx, cfg, dom, base_cls=None, part_cls=None):
    """construct the algorithm of cfg on domain dom (constructor exceptions are failures)"""
    name = cfg["algo"]
    p = params_of(cfg)
    P = part_cls or partition_class(cfg["part"])
    cls = algo_class(name)
    kw = dict(p)
    if name in ("POO", "GPO"):
        base = kw.pop("base")
        kw["algo"] = base_cls or algo_class(base)
    return ctx.call("init", cls, domain=dom, partition=P, **kw)


def partitions_of(algo):
    """all partition objects currently held by an algorithm (wrappers: of every learner)"""
    name = type(algo).__name__
    if name == "POO":
        return [a.partition for a in algo.V_algo if hasattr(a, "partition")]
    if name == "GPO":
        return [algo.curr_algo.partition] if algo.curr_algo is not None and hasattr(algo.curr_algo, "partition") else []
    if name in ("PCT", "VPCT"):
        return partitions_of(algo.algorithm)
    return [algo.partition]


def check_point(ctx, tag, p, dom):
    d = len(dom)
    if not isinstance(p, (list, tuple)) or len(p) != d:
        ctx.fail(tag + ":shape", "returned %r, expected a list of %d numbers" % (type(p).__name__ if not isinstance(p, (list, tuple)) else len(p), d))
        return False
    ok = True
    for i in range(d):
        r = ctx.check_in(tag + ":in_box", p[i], dom[i][0], dom[i][1], "coordinate %d" % i)
        ok = ok and bool(r)
    return ok


class Observer:
    def start(self, ctx, cfg, algo, dom):
        pass

    def after_pull(self, t, p):
        pass

    def after_reward(self, t, r):
        pass

    def finish(self):
        pass


PREFIX_BOX = [-1.0, 3.0]


def plain(r):
    """the reward as the observers book it: a NumPy integer scalar (which the code under test receives as such) is read as the
    Python int it stands for, so that the reference statistics are computed in unbounded arithmetic"""
    import numpy as _np
    return int(r) if isinstance(r, _np.integer) else r


def prefix_reward(cfg, p, t, visits=None):
    """Mode B: concrete reward of round t of the prefix - an objective-like function of the (concrete)
    point plus deterministic dyadic pseudo-noise, so that the tree grows the way it does in real use"""
    spec = cfg["prefix"]
    if not isinstance(p, (list, tuple)) or not p or isinstance(p[0], Sym) or p[0] is None:
        return 0.0  # the code under test returned no usable point: the observers report it, the run goes on
    x = float(p[0])
    if spec.get("pattern") == "spread_flat":
        # per point: 1, 0, 1, 0 on its first four evaluations, then 0.5 - the empirical variance of a cell first grows,
        # then shrinks (variance-aware thresholds move both ways)
        key = tuple(float(v) for v in p)
        k = 0 if visits is None else visits.get(key, 0)
        if visits is not None:
            visits[key] = k + 1
        return (1.0, 0.0, 1.0, 0.0)[k] if k < 4 else 0.5
    if spec.get("pattern") == "rising":
        # every evaluation beats all earlier ones: optimistic searches descend one path (deep trees after few rounds)
        return t * 8.0 - (1000.0 if spec.get("negative") else 0.0)
    lo, hi = spec.get("box") or PREFIX_BOX
    u = (x - lo) / (hi - lo)
    peak = spec.get("peak", 0.3)
    base = 1.0 - abs(u - peak)
    noise = (((t * 37 + int(spec.get("seed", 0)) * 11) % 64) - 32) / 64.0 * spec.get("noise", 0.25)
    r = base + noise
    if spec.get("pattern") == "np_uint8":
        # rewards read from an image / a counter: NumPy small-integer scalars 0..255 (a running total kept in the reward's own
        # dtype wraps after two or three of them; seed S-C04-10)
        import numpy as _np
        return _np.uint8(int(max(0.0, min(1.0, 0.5 + 0.8 * (r - 0.6))) * 255))
    if spec.get("pattern") == "clip_int":
        # rewards clipped to [0, 1] the way a user would write it - min(1, max(0, y)) - so that the clipped ones are the Python
        # ints 0 and 1 and the others floats: 'any finite reward' includes integer-typed ones (seed S-C04-7)
        y = round((0.5 + 1.6 * (r - 0.6)) * 1024) / 1024.0
        return min(1, max(0, y))
    if spec.get("negative"):
        r -= 2.0
    # 'any finite reward' includes rewards with a large constant offset relative to their spread (negated costs): the
    # statistics of a cell must still be those of its history to 1e-9 (a one-pass variance loses them; seed S-C04-9)
    return round(r * 1024) / 1024.0 + float(spec.get("offset", 0.0))


def initial_domain(ctx, cfg):
    """symbolic box, or (Mode B) the concrete prefix box with the concrete RNG stream switched on"""
    pre = cfg.get("prefix")
    if pre:
        shims.rng_concrete(pre.get("seed", 0) + 1000)
        if pre.get("box"):  # a concrete box of the configuration's own (e.g. one that holds only a handful of doubles)
            return [[float(pre["box"][0]), float(pre["box"][1])] for _ in range(cfg["d"])]
        if pre.get("intbox"):  # the bounds as Python ints, the way most users write a domain
            return [[int(PREFIX_BOX[0]), int(PREFIX_BOX[1])] for _ in range(cfg["d"])]
        return [[PREFIX_BOX[0], PREFIX_BOX[1]] for _ in range(cfg["d"])]
    return sym_box(ctx, cfg["d"])


def drive(ctx, cfg, observers=(), dom=None, algo=None, T=None, last_point=True, times=None, rewards=None, stop_on_none=False):
    d = cfg["d"]
    pre = cfg.get("prefix")
    if dom is None:
        dom = initial_domain(ctx, cfg)
    elif pre and algo is None:
        shims.rng_concrete(pre.get("seed", 0) + 1000)
    if algo is None:
        algo = build(ctx, cfg, dom)
    for ob in observers:
        ob.start(ctx, cfg, algo, dom)
    T = cfg["T"] if T is None else T
    rs = []
    _visits = {}
    for k in range(1, T + 1):
        t = times[k - 1] if times is not None else k
        if pre and k == pre["P"] + 1:
            shims.rng_fresh()  # from the first symbolic round on the draws are solver variables again
        p = ctx.call("pull", algo.pull, t)
        if p is None and stop_on_none:
            ctx.count("run_stopped_when_pull_returned_None")
            break
        for ob in observers:
            ob.after_pull(k, p)
        if pre and k <= pre["P"]:
            r = prefix_reward(cfg, p, k, _visits)
        else:
            r = rewards[k - 1] if rewards is not None else ctx.real("r%d" % k)
        rs.append(plain(r))
        ctx.call("receive_reward", algo.receive_reward, t, r)
        for ob in observers:
            ob.after_reward(k, plain(r))
    if pre:
        shims.rng_fresh()
    lp = None
    if last_point:
        lp = ctx.call("get_last_point", algo.get_last_point)
    for ob in observers:
        ob.finish()
    return algo, dom, rs, lp


class ExpansionRecorder(Observer):
    """wraps make_children of every partition held by the algorithm (per instance, no source
    edit) and logs each call: (round, cell, was_leaf, newlayer, partition depth before)"""
    on_call = None

    def start(self, ctx, cfg, algo, dom):
        self.ctx, self.algo = ctx, algo
        self.calls = []
        self.round = 0
        self.phase = "init"
        self._wrapped = set()
        self.wrap_new()

    def wrap_new(self):
        for part in partitions_of(self.algo):
            if id(part) in self._wrapped:
                continue
            self._wrapped.add(id(part))
            orig = part.make_children
            rec = self

            def mk(parent, newlayer=False, _orig=orig, _part=part):
                call = {"round": rec.round, "phase": rec.phase, "cell": parent, "was_leaf": parent.get_children() is None,
                        "newlayer": newlayer, "depth_before": _part.get_depth(), "part": _part}
                rec.calls.append(call)
                if rec.on_call is not None:
                    rec.on_call(call)
                return _orig(parent, newlayer) if True else None

            part.make_children = mk
            # keep a reference so that id() stays unique for the lifetime of the run
            setattr(part, "_verif_keepalive", mk)

    def before_pull(self, t):
        self.round, self.phase = t, "pull"

    def after_pull(self, t, p):
        self.round, self.phase = t, "reward"
        self.wrap_new()

    def after_reward(self, t, r):
        self.wrap_new()
        self.round, self.phase = t + 1, "pull"

    def calls_in(self, t, phase=None):
        return [c for c in self.calls if c["round"] == t and (phase is None or c["phase"] == phase)]
