"""C04 — every reward is credited exactly once to the cell(s) that produced the point."""
from harness import c01
from harness.common import label
from harness.ledger import Ledger, same_term
from harness.runlevel import plain, drive, Observer, algo_class, build, params_of, partitions_of
from sx.engine import Sym

PROPERTY = "C04"
ASSUMPTIONS = [
    "the cell that produced a point is identified by object identity of the returned list with a cell's representative (Zooming: an active arm's point)",
    "rewards are arbitrary reals; 'the same reward' means the identical solver term stored in the cell's list; means/variances are proved equal to the history's by validity queries",
    "StroquOOL's documented restart of its final candidates' reward lists is exempted; VROOM's crediting is checked in C13 (needs the sampled cell), wrappers' routing in C09/C10 and here through recording subclasses of the real base learners",
]
ALGOS = ("T_HOO", "HCT", "VHCT", "StoSOO", "SOO", "DOO", "SequOOL", "StroquOOL", "Zooming", "POO", "GPO", "PCT", "VPCT")


def bounds(tier):
    b = c01.bounds(tier)
    b["algorithms"] = list(ALGOS)
    return b


def configs(tier, seed):
    out = []
    for c in c01.configs(tier, seed):
        if c["algo"] not in ALGOS or c.get("twin"):
            continue
        if c["algo"] in ("POO", "GPO", "PCT", "VPCT") and c.get("rhomax", 0.9) < 0.84:
            continue
        out.append(dict(c, name="ledger-" + c["name"]))
    for c in c01.modeb_configs(tier, [a for a in ALGOS]):
        out.append(dict(c, name="ledger-" + c["name"]))
    out.append({"name": "twin-HCT", "algo": "HCT", "part": "B", "d": 1, "T": 3, "twin": True, "expect_fail": "twin"})
    return out


def make_recording(base, ctx, log):
    """subclass of a real base learner (same __name__) that keeps its own ledger"""

    class Rec(base):
        def __init__(self, **kw):
            super().__init__(**kw)
            self._led = Ledger("learner_ledger")
            self._led.start(ctx, {}, self, None)
            self._k = 0
            self._served = []
            self._got = []
            log.append(self)

        def pull(self, time):
            p = super().pull(time)
            self._k += 1
            self._led.after_pull(self._k, p)
            self._last = p
            return p

        def receive_reward(self, time, reward):
            super().receive_reward(time, reward)
            self._got.append(plain(reward))
            self._led.after_reward(len(self._got), plain(reward))

    Rec.__name__ = base.__name__
    Rec.__qualname__ = base.__qualname__
    return Rec


class WrapperLedger(Observer):
    """POO / GPO / PCT / VPCT: each learner receives exactly the rewards of the rounds it served
    (GPO validation rounds: the score of the validated point)"""

    def __init__(self, learners):
        self.learners = learners

    def start(self, ctx, cfg, algo, dom):
        self.ctx, self.algo = ctx, algo
        self.inner = algo.algorithm if type(algo).__name__ in ("PCT", "VPCT") else algo
        self.name = type(self.inner).__name__
        self.served = []  # per round: learner that proposed the point (None: validation)
        self.rewards = []
        self.snap = None

    def after_pull(self, t, p):
        who = [L for L in self.learners if getattr(L, "_last", None) is p and L._k > len(L._got)]
        self.cur = who[0] if who else None
        self.cur_p = p
        if self.name == "POO" and self.cur is None:
            self.ctx.fail("wrapper:point_not_from_a_learner", "round %d: POO returned a point no learner proposed in this round" % t)
        if len(who) > 1:
            self.ctx.fail("wrapper:two_learners_pulled", "round %d" % t)
        self.snap = {id(L): len(L._got) for L in self.learners}

    def after_reward(self, t, r):
        ctx = self.ctx
        for L in self.learners:
            before = self.snap.get(id(L), 0)
            gained = L._got[before:]
            if L is self.cur:
                ctx.check("wrapper:routed", len(gained) == 1 and same_term(gained[0], r), "round %d: the serving learner got %d rewards" % (t, len(gained)))
                L._served.append(r)
            else:
                ctx.check("wrapper:foreign_credit", len(gained) == 0, "round %d: a learner that did not propose the point received %d reward(s)" % (t, len(gained)))
        if self.name == "POO":
            a = self.inner
            for i, L in enumerate(a.V_algo):
                if L._served:
                    s = L._served[0]
                    for x in L._served[1:]:
                        s = s + x
                    ctx.check_eq("wrapper:score_is_mean", a.V_reward[i], s / len(L._served), "round %d learner %d" % (t, i))
                ctx.check("wrapper:count", a.Times[i] == len(L._served), "round %d learner %d: Times=%s served=%d" % (t, i, a.Times[i], len(L._served)))
        if self.name == "GPO" and self.cur is None:
            self.val = getattr(self, "val", {})
            a = self.inner
            # validation round: the reward belongs to the score of the point being validated
            key = id(self.cur_p)
            self.val.setdefault(key, []).append(r)
            idx = [i for i, x in enumerate(a.V_x) if x is self.cur_p]
            if idx:
                rs = self.val[key]
                s = rs[0]
                for x in rs[1:]:
                    s = s + x
                ctx.check_eq("wrapper:validation_score", a.V_reward[idx[-1]], s / len(rs), "round %d" % t)


def run(ctx, cfg):
    if cfg.get("twin"):
        led = Ledger()
        algo, dom, rs, lp = drive(ctx, cfg, [led], last_point=False)
        n = [x for x in partitions_of(algo)[0].get_node_list()[1]][0]
        ctx.check_eq("twin", n.mean_reward, rs[0] + 1, "reachability witness: deliberately false")
        return
    name = cfg["algo"]
    if name in ("POO", "GPO", "PCT", "VPCT"):
        learners = []
        p = params_of(cfg)
        if name in ("POO", "GPO"):
            base = algo_class(p["base"])
            Rec = make_recording(base, ctx, learners)
            from harness.runlevel import initial_domain
            dom = initial_domain(ctx, cfg)
            algo = build(ctx, cfg, dom, base_cls=Rec)
        else:
            # PCT / VPCT hard-wire their base class: swap the module global for the run
            from harness.common import mods, sym_box
            m = mods()[name]
            attr = "HCT" if name == "PCT" else "VHCT"
            base = getattr(m, attr)
            Rec = make_recording(base, ctx, learners)
            setattr(m, attr, Rec)
            try:
                from harness.runlevel import initial_domain
                dom = initial_domain(ctx, cfg)
                algo = build(ctx, cfg, dom)
                drive(ctx, cfg, [WrapperLedger(learners)], dom=dom, algo=algo, last_point=False)
            finally:
                setattr(m, attr, base)
            return
        drive(ctx, cfg, [WrapperLedger(learners)], dom=dom, algo=algo, last_point=False)
        return
    led = Ledger()
    algo, dom, rs, lp = drive(ctx, cfg, [led], last_point=False)
