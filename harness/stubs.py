"""Recording stub base learners for the wrappers (POO, GPO, PCT, VPCT) — C07, C09, C10.

A stub has the __name__ of a supported base algorithm, records its constructor arguments,
proposes fresh distinguishable points and logs every pull / reward it sees."""


def make_stub(name, log, dom=None):
    class Stub:
        def __init__(self, **kw):
            self.kw = kw
            self.idx = len(log)
            self.pulls = []      # (global event number, time argument, point object)
            self.rewards = []    # (global event number, time argument, reward)
            log.append(self)

        def pull(self, time):
            d = len(self.kw.get("domain") or [[0, 1]])
            # a fresh list object per proposal: identity tells who proposed what
            p = [float(self.idx) + 0.001 * (len(self.pulls) + 1)] * d
            Stub.events[0] += 1
            self.pulls.append((Stub.events[0], time, p))
            return p

        def receive_reward(self, time, reward):
            Stub.events[0] += 1
            self.rewards.append((Stub.events[0], time, reward))

        def get_last_point(self):
            return self.pull(0)

    Stub.events = [0]
    Stub.__name__ = name
    Stub.__qualname__ = name
    return Stub
