"""The ledger (C04): the harness' own record of which cell produced each point and which
reward it therefore must hold, compared with the node statistics after every round."""
import z3

from harness.common import all_nodes, label
from harness.runlevel import Observer, partitions_of
from sx.engine import Sym, toz, rv

TREE_PATH = ("T_HOO",)  # credited: pulled cell and all its ancestors
TREE_LEAF = ("HCT", "VHCT", "StoSOO", "SOO", "DOO", "SequOOL", "StroquOOL")


def rewards_of(node):
    """the reward evidence a node holds, as a list (None = no evidence structure)"""
    if hasattr(node, "rewards"):
        return list(node.rewards)
    if hasattr(node, "reward"):
        r = node.reward
        if isinstance(r, list):
            return list(r)
        return [r] if getattr(node, "visited", False) and getattr(node, "_verif_credited", True) else []
    return None


def same_term(a, b):
    if a is b:
        return True
    if isinstance(a, Sym) and isinstance(b, Sym):
        return bool(a.e.eq(b.e))
    if isinstance(a, Sym) or isinstance(b, Sym):
        return False
    return float(a) == float(b)


class Ledger(Observer):
    """per-cell expected reward lists for the single-tree algorithms and Zooming"""

    def __init__(self, tag="ledger", compare=True):
        self.tag = tag
        self.do_compare = compare

    def start(self, ctx, cfg, algo, dom):
        self.ctx, self.algo = ctx, algo
        self.name = type(algo).__name__
        self.expect = {}  # id(node) -> (node, [rewards])
        self.points = []  # (t, point list object, cell(s))
        self.t_done = 0
        self.pending = None
        self.restarted = set()

    # ---- which cell produced the point
    def cell_of(self, p):
        if self.name == "Zooming":
            for arm in self.algo.active_points:
                if arm.get_point() is p:
                    return arm
            return None
        for part in partitions_of(self.algo):
            for n in all_nodes(part):
                if n.get_cpoint() is p:
                    return n
        return None

    def after_pull(self, t, p):
        c = self.cell_of(p)
        if c is None and self.do_compare:
            self.ctx.fail(self.tag + ":point_not_a_representative", "round %d: the returned point is not the representative of any cell / active arm" % t)
        self.pending = c
        self.points.append((t, p, c))

    def credited(self, c):
        if self.name in TREE_PATH:
            out = []
            n = c
            while n is not None:
                out.append(n)
                n = n.get_parent()
            return out
        return [c]

    def after_reward(self, t, r):
        ctx = self.ctx
        c = self.pending
        self.t_done = t
        if c is None:
            return
        if self.name == "StroquOOL":
            if getattr(self.algo, "end", False):
                return  # documented: after the end receive_reward is a no-op
            # documented exception: candidates restart their reward list when validation begins
            for n in getattr(self.algo, "candidate", []):
                if n is not None and id(n) not in self.restarted:
                    self.restarted.add(id(n))
                    if id(n) in self.expect:
                        self.expect[id(n)] = (n, [])
        for n in self.credited(c):
            self.expect.setdefault(id(n), (n, []))[1].append(r)
        if self.do_compare:
            self.compare(t)

    def compare(self, t):
        ctx, tag = self.ctx, self.tag
        if self.name == "Zooming":
            return self.compare_zooming(t)
        total = 0
        reach = []
        for part in partitions_of(self.algo):
            reach += all_nodes(part)
        reach_ids = set(id(n) for n in reach)
        for nid, (n, rs) in self.expect.items():
            if rs and nid not in reach_ids:
                ctx.fail(tag + ":evidence_unreachable", "round %d: cell %s holding %d reward(s) is no longer reachable from the root" % (t, label(n), len(rs)))
        for n in reach:
            want = self.expect.get(id(n), (n, []))[1]
            have = rewards_of(n)
            if have is None:
                continue
            if hasattr(n, "reward") and not isinstance(n.reward, list):
                # single-slot nodes (SOO, DOO): the slot holds the last credited reward
                if want:
                    ctx.check(tag + ":credit", same_term(n.reward, want[-1]), "round %d: cell %s holds %r, expected the reward of its own evaluation" % (t, label(n), n.reward))
                    if len(want) > 1:
                        ctx.fail(tag + ":credited_twice", "round %d: cell %s was evaluated %d times" % (t, label(n), len(want)))
                else:
                    default_ok = (not isinstance(n.reward, Sym))
                    ctx.check(tag + ":foreign_credit", default_ok, "round %d: cell %s never produced a point but holds reward %r" % (t, label(n), n.reward))
                total += len(want)
                continue
            ok = len(have) == len(want) and all(same_term(a, b) for a, b in zip(have, want))
            if not ok:
                kind = "lost" if len(have) < len(want) else ("duplicated_or_foreign" if len(have) > len(want) else "misattributed")
                ctx.fail(tag + ":" + kind, "round %d: cell %s holds %d reward(s), the history credits it with %d" % (t, label(n), len(have), len(want)))
                continue
            ctx.count("sym:ledger_lists_compared")
            if hasattr(n, "visited_times") and self.name != "StroquOOL":
                ctx.check(tag + ":count", n.visited_times == len(want), "round %d: cell %s visited_times=%s, %d rewards" % (t, label(n), n.visited_times, len(want)))
            if want and hasattr(n, "mean_reward") and self.name not in ("StroquOOL", "SequOOL"):
                s = want[0]
                for x in want[1:]:
                    s = s + x
                mean = s / len(want)
                ctx.check_eq(tag + ":mean", n.mean_reward, mean, "round %d: cell %s mean" % (t, label(n)))
                if hasattr(n, "variance"):
                    v = 0
                    for x in want:
                        v = v + (x - mean) * (x - mean)
                    v = v / len(want)
                    floor = n.minvariance if hasattr(n, "minvariance") else 1e-3
                    from sx.engine import zmax
                    ctx.check_eq(tag + ":variance", n.variance, zmax(v, floor) if isinstance(v, Sym) else max(v, floor), "round %d: cell %s variance" % (t, label(n)))
            if n.get_parent() is not None or self.name not in TREE_PATH:
                total += len(want) if self.name not in TREE_PATH else 0
        if self.name in TREE_PATH:
            root = self.algo.partition.get_root()
            ctx.check(tag + ":total", root.visited_times == t, "round %d: the root has %s visits" % (t, root.visited_times))
        elif self.name not in ("StroquOOL", "SequOOL"):
            ctx.check(tag + ":total", total == t, "round %d: counts over the reachable tree sum to %d" % (t, total))

    def compare_zooming(self, t):
        ctx, tag, a = self.ctx, self.tag, self.algo
        total = 0
        for arm in a.active_points:
            want = self.expect.get(id(arm), (arm, []))[1]
            ctx.check(tag + ":count", a.pulled_times[arm] == len(want), "round %d: arm has pulled_times=%s, history says %d" % (t, a.pulled_times[arm], len(want)))
            if want:
                s = want[0]
                for x in want[1:]:
                    s = s + x
                ctx.check_eq(tag + ":mean", a.average_rewards[arm], s / len(want), "round %d: arm mean" % t)
            else:
                ctx.check(tag + ":foreign_credit", not isinstance(a.average_rewards[arm], Sym) and a.average_rewards[arm] == 0)
            total += len(want)
        for nid, (arm, rs) in self.expect.items():
            if rs and arm not in a.active_points:
                ctx.fail(tag + ":evidence_unreachable", "round %d: an arm with %d rewards is no longer active" % (t, len(rs)))
        ctx.check(tag + ":total", total == t, "round %d: pull counts of the active arms sum to %d" % (t, total))
