"""Floating-point lemma of C16: scaling a box by a power of two scales every cell boundary and every
representative point produced by the real partition code bit-exactly (absent over/underflow), obtained by
running the real P_node / BinaryPartition / DimensionBinaryPartition / KaryPartition (np.linspace) code on
z3 FloatingPoint proxies, once on [lo, hi] and once on [s*lo, s*hi], and proving the outputs equal up to s.

Translation is NOT bit-exact in floating point (lo + b is rounded); the translation clause of C16 is decided in
real arithmetic by the run-level harness and no floating-point claim is made for it."""
import math
import time
import warnings

import z3

from harness.common import mods, partition_class
from sx.fp import FPSession, FPInconclusive, fp_to_float


def _pre(S, lo, hi, k):
    eb = S.eb
    emax = 2 ** (eb - 1) - 1
    emin = 1 - emax
    big = S.val(2.0 ** (emax - abs(k) - 2))
    small = S.val(2.0 ** (emin + abs(k) + 2))
    RM = z3.RNE()
    terms = [lo.e, hi.e, z3.fpAdd(RM, lo.e, hi.e), z3.fpSub(RM, hi.e, lo.e)]
    for v in terms:
        S.assume(z3.Not(z3.fpIsNaN(v)))
        S.assume(z3.Not(z3.fpIsInf(v)))
        S.assume(z3.fpLEQ(z3.fpAbs(v), big))
        S.assume(z3.Or(z3.fpIsZero(v), z3.fpGEQ(z3.fpAbs(v), small)))
    S.assume(z3.fpLT(lo.e, hi.e))
    return "lo < hi finite; lo, hi, lo+hi, hi-lo are zero or have magnitude in [2^%d, 2^%d] (no over/underflow when scaled by 2^%d)" % (emin + abs(k) + 2, emax - abs(k) - 2, k)


def _children(kind, lo, hi, K=None):
    with warnings.catch_warnings():
        warnings.simplefilter("ignore")
        cls = partition_class(kind) if K is None else mods()["KaryPartition"].KaryPartition
        part = cls(domain=[[lo, hi]]) if K is None else cls(domain=[[lo, hi]], K=K)
        part.make_children(part.get_root(), newlayer=True)
    out = []
    for c in part.get_root().get_children():
        out.append((c.get_domain()[0][0], c.get_domain()[0][1], c.get_cpoint()[0]))
    return out


def lemma_scale(eb, sb, k, kind, K=None, timeout_s=900):
    t0 = time.time()
    S = FPSession(eb, sb, timeout_ms=timeout_s * 1000)
    lo, hi = S.var("lo"), S.var("hi")
    pre = _pre(S, lo, hi, k)
    s = 2.0 ** k
    name = "L-scale binary(%d,%d) %s%s x2^%d" % (eb, sb, kind, "" if K is None else str(K), k)
    if K is not None:
        step = z3.fpDiv(z3.RNE(), z3.fpSub(z3.RNE(), hi.e, lo.e), S.val(float(K)))
        S.assume(z3.fpGEQ(z3.fpAbs(step), S.val(2.0 ** (1 - (2 ** (eb - 1) - 1) + abs(k) + 2))))
        pre += "; (hi-lo)/K at least 2^(emin+|k|+2)"
    try:
        a = _children(kind, lo, hi, K)
        b = _children(kind, lo * s, hi * s, K)
    except FPInconclusive as ex:
        return {"lemma": name, "status": "unknown", "detail": str(ex), "queries": S.queries, "solver_s": round(S.solver_s, 2), "wall_s": round(time.time() - t0, 2),
                "obligations": [], "replayable": False}
    status, res, witness = "holds", [], None
    if len(a) != len(b):
        status = "violated"
        witness = {"obligation": "same number of children"}
    else:
        for j, (x, y) in enumerate(zip(a, b)):
            for nm, u, v in (("lower bound", x[0], y[0]), ("upper bound", x[1], y[1]), ("representative", x[2], y[2])):
                ob = "child %d %s of the scaled box = 2^%d * that of the box" % (j, nm, k)
                want = (u * s).e
                if want.eq(v.e):
                    res.append((ob, "holds (same term)"))
                    continue
                st, model = S.prove(z3.fpEQ(v.e, want))
                res.append((ob, st))
                if st == "violated":
                    status = "violated"
                    witness = {"obligation": ob, "lo": fp_to_float(model, lo.e), "hi": fp_to_float(model, hi.e)}
                    break
                if st == "unknown" and status == "holds":
                    status = "unknown"
            if status == "violated":
                break
    replayable = (eb, sb) == (11, 53)
    if status == "violated" and witness and "lo" in witness and not replayable:
        w64 = binary64_witness(kind, K, k, witness["lo"], witness["hi"])
        if w64 is not None:
            witness = dict(w64, obligation=witness["obligation"], reduced_precision_model={"lo": witness["lo"], "hi": witness["hi"]},
                           note="solver: not a theorem in binary(%d,%d); binary64 box located by concrete search and confirmed on the unshimmed code" % (eb, sb))
            replayable = True
    if witness is not None:
        witness.update(kind=kind, K=K, k=k)
    return {"lemma": name, "status": status, "precondition": pre, "obligations": res, "queries": S.queries, "solver_s": round(S.solver_s, 2),
            "wall_s": round(time.time() - t0, 2), "witness": witness, "replayable": replayable}


def concrete_failures(kind, K, k, lo, hi):
    """the same obligation on plain doubles with the unshimmed code; None outside the precondition"""
    s = 2.0 ** k
    vals = [lo, hi, lo + hi, hi - lo] + ([(hi - lo) / K] if K else [])
    small, big = 2.0 ** (-1022 + abs(k) + 2), 2.0 ** (1023 - abs(k) - 2)
    if not lo < hi or any((not math.isfinite(v)) or abs(v) > big or (v != 0 and abs(v) < small) for v in vals):
        return None
    a = _children(kind, lo, hi, K)
    b = _children(kind, lo * s, hi * s, K)
    bad = []
    if len(a) != len(b):
        return ["different number of children"]
    for j, (x, y) in enumerate(zip(a, b)):
        for nm, u, v in (("lower bound", x[0], y[0]), ("upper bound", x[1], y[1]), ("representative", x[2], y[2])):
            if float(u) * s != float(v):
                bad.append("child %d %s: %r * 2^%d != %r" % (j, nm, float(u), k, float(v)))
    return bad


def binary64_witness(kind, K, k, lo0, hi0, budget=20000):
    import random as _random
    rnd = _random.Random(20240301)
    cands = []
    if lo0 is not None and math.isfinite(lo0) and math.isfinite(hi0):
        for sc in (1.0, 3.0, 0.1, 1e3):
            cands += [(lo0 * sc, hi0 * sc), (math.nextafter(lo0 * sc, -math.inf), hi0 * sc), (lo0 * sc, math.nextafter(hi0 * sc, math.inf))]
    for a in (-3, -1, 0, 1, 2, 5, 10, -32.768, -5.12, -600, 0.1, 0.3):
        for w in (1, 2, 3, 7, 10, 0.1, 0.7, 1.3, 65.536, 1200):
            cands.append((float(a), float(a) + w))
    while len(cands) < budget:
        a = rnd.uniform(-1, 1) * 10 ** rnd.randint(-6, 6)
        cands.append((a, a + abs(a) * rnd.uniform(1e-6, 3) + rnd.uniform(0, 1)))
    tried = 0
    for lo, hi in cands:
        try:
            bad = concrete_failures(kind, K, k, lo, hi)
        except Exception:  # noqa
            continue
        if bad is None:
            continue
        tried += 1
        if bad:
            return {"lo": lo, "hi": hi, "failures": bad[:3], "boxes_tried": tried}
    return None


def replay(result):
    w = result.get("witness") or {}
    if "lo" not in w or "kind" not in w:
        return False
    return bool(concrete_failures(w["kind"], w.get("K"), w["k"], w["lo"], w["hi"]))


def run_lemma(spec):
    try:
        return lemma_scale(**spec["kw"])
    except Exception as ex:  # noqa
        import traceback
        return {"lemma": spec["name"], "status": "error", "detail": "%s: %s\n%s" % (type(ex).__name__, ex, traceback.format_exc()[-800:])}


def specs(tier):
    """measured (16 cores busy): binary16 B 5.5 min, binary16 DB 6-7 min per scaling, binary32 B not decided in 12 min, binary16 K3 not in
    15 min - hence thorough tier only, binary16 only; an undecided lemma is reported under lemmas_not_discharged, never as held"""
    out = []
    if tier == "thorough":
        for k in (1, -2):
            out.append({"name": "L-scale binary16 B x2^%d" % k, "fn": "scale", "kw": {"eb": 5, "sb": 11, "k": k, "kind": "B", "timeout_s": 900}})
            out.append({"name": "L-scale binary16 DB x2^%d" % k, "fn": "scale", "kw": {"eb": 5, "sb": 11, "k": k, "kind": "DB", "timeout_s": 900}})
    return out
