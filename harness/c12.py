"""C12 — SequOOL opens cells depth by depth within its harmonic budget."""
import math
from fractions import Fraction

from harness.common import leaves, label, arity, all_nodes
from harness.ledger import Ledger
from harness.runlevel import drive, Observer, ExpansionRecorder, params_of
from harness.treeref import ge, asb

PROPERTY = "C12"
ASSUMPTIONS = [
    "h_max = floor(n / H_n) is recomputed by the harness in exact rational arithmetic",
    "an 'opening' of a cell is reconstructed from observables: the make_children call on it (or its first child being pulled) followed by pulls of its children; the current depth of the reference is the depth of the last opened cell",
    "'highest observed reward' is proved as reward(opened) >= reward(other unopened cell of that depth) under the path condition; ties either way",
]


def h_max_of(n):
    H = sum(Fraction(1, i) for i in range(1, n + 1))
    return int(Fraction(n) / H)


def bounds(tier):
    q = 0 if tier == "quick" else 1
    return {"n": [10, 11, 12] + ([14, 17, 20] if q else []), "rounds": "the whole schedule plus two post-schedule rounds where the path budget allows (T in config names)",
            "partitions": "B, K3, RB, DB" + (", K2, RK3, K4" if q else ""), "outside": "larger budgets"}


def configs(tier, seed):
    q = 0 if tier == "quick" else 1
    out = []
    for n in [10, 11, 12] + ([14, 17, 20] if q else []):
        for part in ["B", "K3", "RB", "DB"] + (["K2", "RK3", "K4"] if q else []):
            for d in (1, 2):
                if d == 2 and (part not in ("B", "DB") or n != 10):
                    continue
                K = arity(part, d)
                T = {2: 11, 3: 9, 4: 9}.get(K, 9) + (1 if q else 0)
                if n > 12:
                    T = min(T, 11)
                if d == 2:
                    T = 8 if K == 2 else 9
                out.append({"name": "seq-%s-d%d-n%d-T%d" % (part, d, n, T), "algo": "SequOOL", "part": part, "d": d, "T": T, "params": {"n": n}, "cost": T * K})
    from harness import c01
    for c in c01.modeb_configs(tier, ["SequOOL"]):
        out.append(dict(c, name="seq-" + c["name"]))
    for P, n in ((16, 20), (30, 40)):
        pre = {"P": P, "k": 3, "seed": 0, "peak": 0.3, "noise": 0.25}
        out.append({"name": "seq-modeb-B-n%d-P%d+3" % (n, P), "algo": "SequOOL", "part": "B", "d": 1, "T": P + 3, "params": {"n": n}, "prefix": pre, "cost": P})
    out.append({"name": "hmax-sweep-n10..%d" % (10000 if q == 0 else 40000), "mode": "hmax", "top": 10000 if q == 0 else 40000, "algo": "SequOOL", "part": "B", "d": 1, "T": 0, "params": {}, "cost": 5})
    out.append({"name": "twin-seq", "algo": "SequOOL", "part": "B", "d": 1, "T": 3, "params": {"n": 10}, "twin": True, "expect_fail": "twin"})
    return out


class SeqRef(Observer):
    def start(self, ctx, cfg, algo, dom):
        self.ctx, self.a = ctx, algo
        self.n = params_of(cfg)["n"]
        self.hmax = h_max_of(self.n)
        ctx.check("seq:h_max", algo.h_max == self.hmax, "h_max=%s, floor(n/H_n)=%d" % (algo.h_max, self.hmax))
        self.led = Ledger(compare=False)
        self.led.start(ctx, cfg, algo, dom)
        self.rec = ExpansionRecorder()
        self.rec.start(ctx, cfg, algo, dom)
        self.part = algo.partition
        self.opened = []          # cells in opening order
        self.cur_open = None      # cell being opened
        self.cur_pos = 0          # next child to be evaluated
        self.opens_at = {}        # depth -> count
        self.exhausted = False
        self.rec_point = None

    def reward(self, n):
        rs = self.led.expect.get(id(n), (n, []))[1]
        return rs[0] if rs else None

    def after_pull(self, t, p):
        ctx = self.ctx
        calls = self.rec.calls_in(t, "pull")
        self.rec.after_pull(t, p)
        self.led.after_pull(t, p)
        c = self.led.pending
        root = self.part.get_root()
        if c is None:
            ctx.fail("seq:point_not_a_representative", "round %d" % t)
            return
        if c is root:
            # the schedule is exhausted: from now on only the domain centre
            if not self.exhausted:
                self.exhausted = True
                ctx.check("seq:exhausted_only_after_schedule", self.cur_open is None or self.cur_pos >= len(self.cur_open.get_children()), "round %d: the domain centre is returned in the middle of an opening" % t)
                deepest = max([x.get_depth() for x in self.opened] + [0])
                more = [x for x in all_nodes(self.part) if 1 <= x.get_depth() <= self.hmax and x.get_depth() >= deepest and not any(x is o for o in self.opened) and self.reward(x) is not None]
                budget_left = any(self.opens_at.get(h, 0) < self.hmax // h for h in range(max(deepest, 1), self.hmax + 1))
                ctx.count("sym:exhaustion_seen")
            return
        if self.exhausted:
            ctx.fail("seq:search_after_exhaustion", "round %d: a search cell is evaluated after the schedule was exhausted" % t)
        if self.reward(c) is not None:
            ctx.fail("seq:evaluated_twice", "round %d: cell %s is evaluated a second time" % (t, label(c)))
        P = c.get_parent()
        if self.cur_open is not None and self.cur_pos < len(self.cur_open.get_children()):
            want = self.cur_open.get_children()[self.cur_pos]
            ctx.check("seq:children_in_order", c is want, "round %d: opening %s: expected child %d (%s), got %s" % (t, label(self.cur_open), self.cur_pos, label(want), label(c)))
            self.cur_pos += 1
        else:
            # a new opening starts with the first child of P
            self.open(t, P, calls)
            ctx.check("seq:children_in_order", c is P.get_children()[0], "round %d: opening %s does not start with its first child" % (t, label(P)))
            self.cur_pos = 1
        for call in calls:
            ctx.check("seq:expansion_is_opening", call["cell"] is P, "round %d: children were created under %s while %s is being opened" % (t, label(call["cell"]), label(P)))
        ctx.observe("p%d" % t, p)

    def open(self, t, P, calls):
        ctx = self.ctx
        h = P.get_depth()
        if any(P is o for o in self.opened):
            ctx.fail("seq:opened_twice", "round %d: cell %s is opened a second time" % (t, label(P)))
        if not self.opened:
            ctx.check("seq:root_first", h == 0, "round %d: the first opened cell is %s, not the root" % (t, label(P)))
        else:
            last = self.opened[-1].get_depth()
            ctx.check("seq:depth_by_depth", h == last or h == last + 1, "round %d: opened %s (depth %d) after a cell of depth %d" % (t, label(P), h, last))
            ctx.check("seq:within_h_max", h <= self.hmax, "round %d: opened a cell of depth %d > h_max = %d" % (t, h, self.hmax))
            self.opens_at[h] = self.opens_at.get(h, 0) + 1
            if h >= 1:
                ctx.check("seq:budget", self.opens_at[h] <= self.hmax // h, "round %d: %d cells of depth %d opened, floor(h_max/h) = %d" % (t, self.opens_at[h], h, self.hmax // h))
            rP = self.reward(P)
            if rP is None:
                ctx.fail("seq:opened_unevaluated", "round %d: cell %s opened before it was evaluated" % (t, label(P)))
            else:
                for x in all_nodes(self.part):
                    if x.get_depth() == h and x is not P and not any(x is o for o in self.opened):
                        rx = self.reward(x)
                        if rx is not None:
                            ctx.check("seq:best_unopened", asb(ge(rP, rx)), "round %d: opened %s although the unopened cell %s of the same depth has a higher reward" % (t, label(P), label(x)))
        self.opened.append(P)
        self.cur_open = P

    def after_reward(self, t, r):
        ctx = self.ctx
        if self.rec.calls_in(t, "reward"):
            ctx.fail("seq:expansion_in_reward", "round %d" % t)
        self.rec.after_reward(t, r)
        self.led.after_reward(t, r)
        ok, lp = ctx.soft_call(self.a.get_last_point)
        if ok:
            if self.exhausted and self.rec_point is not None:
                ctx.check("seq:recommendation_frozen", lp is self.rec_point, "round %d: a post-schedule round altered the recommendation" % t)
            if not self.exhausted or self.rec_point is None:
                self.rec_point = lp


def run_hmax(ctx, cfg):
    """h_max = floor(n / H_n) for every budget of a range (exact rationals; concrete enumeration, the
    schedule arithmetic does not depend on rewards)"""
    from harness.runlevel import algo_class
    from harness.common import partition_class
    cls = algo_class("SequOOL")
    bad = []
    H = Fraction(0)
    for i in range(1, 10):
        H += Fraction(1, i)
    for n in range(10, cfg["top"] + 1):
        H += Fraction(1, n)
        want = int(Fraction(n) / H)
        a = cls(n=n, domain=[[0.0, 1.0]], partition=partition_class("B"))
        if a.h_max != want:
            bad.append((n, a.h_max, want))
    ctx.check("seq:h_max", not bad, "h_max != floor(n/H_n) for budgets %s (n, got, expected)" % (bad[:6],))
    ctx.count("sym:hmax_sweep")


def run(ctx, cfg):
    if cfg.get("mode") == "hmax":
        return run_hmax(ctx, cfg)
    ob = SeqRef()
    algo, dom, rs, lp = drive(ctx, cfg, [ob], last_point=False)
    if cfg.get("twin"):
        ctx.check_ge("twin", rs[0], rs[1], "reachability witness: deliberately false")
