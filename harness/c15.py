"""C15 — anytime algorithms ignore the time argument and tolerate recommendation queries."""
from harness import c01, c14
from harness.common import sym_box
from harness.runlevel import build
from sx import shims

PROPERTY = "C15"
ASSUMPTIONS = [
    "time labels of the second run are arbitrary strictly increasing integers (solver variables) - stronger than the offsets {0,1,17} named in the property; the first run uses 1..T; both runs see the same reward terms and the same RNG draws",
    "query tolerance: before each pull of the second run get_last_point() is called 0, 1 or 2 times (free choice per round, every combination explored)",
    "StoSOO and StroquOOL are time-driven by design and excluded by the property",
]
TIME_ALGOS = {"T_HOO": 5, "HCT": 6, "VHCT": 3, "Zooming": 4, "POO": 4, "GPO": 4, "PCT": 4, "VPCT": 3, "DOO": 5, "SOO": 6, "SequOOL": 7, "VROOM": 1}
QUERY_ALGOS = {"T_HOO": 4, "HCT": 4, "VHCT": 3, "Zooming": 3, "POO": 5}


def bounds(tier):
    q = 0 if tier == "quick" else 1
    return {"time_label_rounds": {k: v + q for k, v in TIME_ALGOS.items()}, "query_rounds": {k: v + q for k, v in QUERY_ALGOS.items()},
            "partitions": "B, RB, K3", "label_landmarks": "first label pinned at 2^31-2, 2^53-1, 2^63-2, 2^64 (3 rounds, every path replayed on the unshimmed code)", "outside": "longer runs"}


def configs(tier, seed):
    q = 0 if tier == "quick" else 1
    out = []
    for algo, T in TIME_ALGOS.items():
        for part in ("B", "RB", "K3"):
            if algo == "VROOM" and part == "K3":
                continue
            Tq = min(c01.rounds_override(algo, part, 1, T + q, q), T + q)
            out.append({"name": "time-%s-%s-T%d" % (algo, part, Tq), "mode": "time", "algo": algo, "part": part, "d": 1, "T": Tq, "cost": Tq * 3})
    for algo, T in QUERY_ALGOS.items():
        for part in ("B", "RB", "K3"):
            Tq = T + q
            if algo == "Zooming" and part == "RB":
                Tq = 2 + q
            out.append({"name": "query-%s-%s-T%d" % (algo, part, Tq), "mode": "query", "algo": algo, "part": part, "d": 1, "T": Tq, "cost": 3 ** Tq})
    # labels at the machine-word landmarks: first label pinned just below 2^31, 2^53, 2^63 and at 2^64, consecutive afterwards; every
    # path is replayed on the unshimmed code (a label stored in a typed array, or converted to a C integer or a double, wraps,
    # raises or rounds there - the solver's integers cannot)
    for algo, T in TIME_ALGOS.items():
        for nm, L in (("2^31", 2 ** 31 - 2), ("2^53", 2 ** 53 - 1), ("2^63", 2 ** 63 - 2), ("2^64", 2 ** 64)):
            Tq = min(T, 3)
            out.append({"name": "time-%s-B-T%d-labels~%s" % (algo, Tq, nm), "mode": "time", "algo": algo, "part": "B", "d": 1, "T": Tq, "label_base": L, "validate_all": True, "cost": Tq * 3})
    # Mode B: concrete prefix, then symbolic rewards; time labels symbolic in ALL rounds of the second run
    for c in c01.modeb_configs(tier, [a for a in TIME_ALGOS if a != "VROOM"], parts=("B", "K3")):  # VROOM: every draw forks, Mode A only
        if c["prefix"]["seed"] == 0 and (c["prefix"]["P"] <= 130 or q):
            out.append(dict(c, name="time-" + c["name"], mode="time"))
    for c in c01.modeb_configs(tier, list(QUERY_ALGOS), parts=("B", "K3")):
        if c["prefix"]["seed"] == 0 and (c["prefix"]["P"] <= 130 or q):
            out.append(dict(c, name="query-" + c["name"], mode="query"))
    out.append({"name": "twin-time", "mode": "time", "algo": "T_HOO", "part": "B", "d": 1, "T": 2, "twin": True, "expect_fail": "twin"})
    return out


def run_labelled(ctx, cfg, dom, rewards, times, queries=None, second=False):
    from harness.runlevel import prefix_reward
    algo = build(ctx, cfg, dom)
    pts = []
    for k in range(len(rewards)):
        if queries is not None:
            for _ in range(queries[k]):
                ctx.soft_call(algo.get_last_point)
        if second:
            ok, p = ctx.soft_call(algo.pull, times[k])
            if not ok:
                ctx.fail("second_run:raised_only_in_this_run", "pull raised %s although the reference run did not" % type(p).__name__)
                return pts
        else:
            p = ctx.call("pull", algo.pull, times[k])
        pts.append(p)
        if rewards[k] is None:  # Mode B prefix round of the reference run: the reward is a function of the point
            rewards[k] = prefix_reward(cfg, p, k + 1)
        if second:
            ok, e = ctx.soft_call(algo.receive_reward, times[k], rewards[k])
            if not ok:
                ctx.fail("second_run:raised_only_in_this_run", "receive_reward raised %s although the reference run did not" % type(e).__name__)
                return pts
        else:
            ctx.call("receive_reward", algo.receive_reward, times[k], rewards[k])
    ok, lp = ctx.soft_call(algo.get_last_point)
    pts.append(lp if ok else None)
    return pts


def run(ctx, cfg):
    T, d = cfg["T"], cfg["d"]
    pre = cfg.get("prefix")
    if pre:
        from harness.runlevel import PREFIX_BOX
        dom = [[PREFIX_BOX[0], PREFIX_BOX[1]] for _ in range(d)]
        rewards = [None] * pre["P"] + [ctx.real("r%d" % t) for t in range(pre["P"] + 1, T + 1)]
    else:
        dom = sym_box(ctx, d)
        rewards = [ctx.real("r%d" % t) for t in range(1, T + 1)]
    shims.rng_record()
    try:
        a = run_labelled(ctx, cfg, dom, rewards, list(range(1, T + 1)))
        shims.rng_replay()
        if cfg["mode"] == "time":
            labels = []
            prev = None
            for k in range(T):
                if cfg.get("label_base") is not None:
                    t = ctx.int("label%d" % (k + 1), cfg["label_base"] + k, cfg["label_base"] + k)
                else:
                    t = ctx.int("label%d" % (k + 1), 0)
                if prev is not None:
                    ctx.assume(t > prev)
                prev = t
                labels.append(t)
            b = run_labelled(ctx, cfg, dom, rewards, labels, second=True)
            what = "rounds labelled 1..T vs arbitrary increasing labels"
        else:
            if pre:
                qs = [0] * pre["P"] + [ctx.choose(3, "queries") for _ in range(T - pre["P"])]
                qs[pre["P"] - 1] = 1  # and one query at the end of the prefix
            else:
                qs = [ctx.choose(3 if T <= 4 else 2, "queries") for _ in range(T)]
            ctx.note("queries before each pull: %s" % qs)
            b = run_labelled(ctx, cfg, dom, rewards, list(range(1, T + 1)), queries=qs, second=True)
            what = "run with get_last_point() inserted %s times before the pulls vs plain run" % qs
    finally:
        shims.rng_fresh()
    c14.compare(ctx, "time" if cfg["mode"] == "time" else "query", a, b, what)
    for k, p in enumerate(a[:-1]):
        ctx.observe("p%d" % k, p)
    if cfg.get("twin"):
        ctx.check_eq("twin", a[0][0], a[1][0], "reachability witness: deliberately false")
