"""C08 — SOO, StoSOO and DOO evaluate and expand cells by their optimistic rule."""
import math

from harness import c01
from harness.common import all_nodes, leaves, label, arity, sym_box
from harness.ledger import Ledger
from harness.runlevel import drive, Observer, ExpansionRecorder, params_of
from harness.treeref import mean_of, ge, asb
from sx.engine import Sym, is_inf

PROPERTY = "C08"
ASSUMPTIONS = [
    "sweeps are reconstructed from observables only: a maximal run of expansions with strictly increasing depth inside one pull() call (DESIGN §5a.7)",
    "'best of its depth' is proved as value(expanded) >= value(other leaf of that depth) at the moment of the expansion, values recomputed from the harness' ledger (SOO: reward; StoSOO: mean + sqrt(ln(nk/delta)/(2T)), infinite when unevaluated; DOO: reward + delta(depth) over all leaves); ties may be broken either way",
    "'first unevaluated leaf in top-down order' is demanded with respect to depth (no unevaluated leaf at a strictly shallower depth)",
    "DOO additionally: reward + algo.delta(depth) of the expanded leaf >= that of every other leaf EXACTLY (no tolerance), with the algorithm's own public delta(h) as the diameter function",
    "DOO: default delta on the concrete box [0,1]^d (delta(h) is then a concrete number), user-supplied delta(h)=0.5^h on a symbolic box",
]
T_OF = {"SOO": (7, 13), "StoSOO": (8, 14), "DOO": (7, 11)}


def bounds(tier):
    q = 0 if tier == "quick" else 1
    return {"rounds_T": {k: v[q] for k, v in T_OF.items()}, "StoSOO_k": [2, 3], "depth_caps": "h_max in {100, 2, 3} (SOO, StoSOO)",
            "partitions": "B, RB, DB, K3, RK3" + (", K2, K4" if q else ""), "dimensions": [1, 2], "outside": "longer histories"}


def configs(tier, seed):
    q = 0 if tier == "quick" else 1
    out = []
    parts = ["B", "RB", "DB", "K3", "RK3"] + (["K2", "K4"] if q else [])
    for algo, Ts in T_OF.items():
        for part in parts:
            for d in (1, 2):
                if d == 2 and part not in ("B", "DB", "K3"):
                    continue
                T = Ts[q] if d == 1 else max(3, Ts[q] - 2)
                variants = [("", {})]
                if algo == "SOO" and part == "B" and d == 1:
                    variants += [("-hmax2", {"h_max": 2}), ("-hmax3", {"h_max": 3})]
                if algo == "StoSOO" and part in ("B", "K3") and d == 1:
                    variants += [("-k3", {"k": 3}), ("-hmax2", {"h_max": 2}), ("-k1", {"k": 1}), ("-k1-hmax1", {"k": 1, "h_max": 1}), ("-k1-hmax2", {"k": 1, "h_max": 2})]
                if algo == "DOO":
                    variants = [("-defaultdelta", {"concrete_box": True}), ("-userdelta", {"delta": "user"})]
                for tag, pr in variants:
                    Tv = T
                    if algo == "DOO" and part.startswith("R"):
                        Tv = min(T, 5 + q)
                    if "hmax" in tag:
                        Tv = min(T, 6)
                    if tag == "-k1-hmax2":
                        Tv = 9  # 7 cells up to depth 2, then the cap is the only thing that stops the search
                    out.append({"name": "rule-%s-%s-d%d-T%d%s" % (algo, part, d, Tv, tag), "algo": algo, "part": part, "d": d, "T": Tv,
                                "params": pr, "cost": Tv * d * arity(part, d)})
    for c in c01.modeb_configs(tier, ["SOO", "StoSOO", "DOO"], parts=("B", "K3", "RB", "RK3")):
        out.append(dict(c, name="rule-" + c["name"]))
    out.append({"name": "twin-SOO", "algo": "SOO", "part": "B", "d": 1, "T": 3, "params": {}, "twin": True, "expect_fail": "twin"})
    return out


class Rule(Observer):
    def start(self, ctx, cfg, algo, dom):
        self.ctx, self.algo = ctx, algo
        self.name = type(algo).__name__
        self.p = params_of(cfg)
        self.led = Ledger(compare=False)
        self.led.start(ctx, cfg, algo, dom)
        self.rec = ExpansionRecorder()
        self.rec.on_call = self.on_expand
        self.rec.start(ctx, cfg, algo, dom)
        self.part = algo.partition
        self.k = 1
        if self.name == "StoSOO":
            self.k = algo.k
            self.n, self.delta = algo.n, algo.delta
        self.h_max = getattr(algo, "h_max", None) if self.name in ("SOO", "StoSOO") else None
        self.sweep = []  # expansions of the current sweep: (depth, value)
        self.round = 1
        self.n_exp_in_pull = 0
        self.user_delta = cfg.get("params", {}).get("delta") == "user"

    # ---- values from the ledger
    def hist(self, n):
        return self.led.expect.get(id(n), (n, []))[1]

    def value(self, n):
        rs = self.hist(n)
        if not rs:
            return float("inf") if self.name == "StoSOO" else None
        if self.name == "SOO":
            return rs[-1]
        if self.name == "StoSOO":
            return mean_of(rs) + math.sqrt(math.log(self.n * self.k / self.delta) / (2 * len(rs)))
        return rs[-1] + self.delta_of(n.get_depth())

    def delta_of(self, h):
        if self.user_delta:
            return 0.5 ** h
        m = None
        for n in self.part.get_node_list()[h]:
            lo, hi = n.get_domain()[0]
            v = ((hi - lo) / 2) ** 2
            m = v if m is None or v >= m else m
        return m

    # ---- called right before every make_children
    def on_expand(self, call):
        ctx = self.ctx
        L = call["cell"]
        h = L.get_depth()
        t = self.round
        self.n_exp_in_pull += 1
        ctx.check("rule:expansion_in_pull", call["phase"] == "pull", "round %d: expansion outside pull()" % t)
        ctx.check("rule:expand_only_leaves", call["was_leaf"], "round %d: %s already had children" % (t, label(L)))
        cnt = len(self.hist(L))
        ctx.check("rule:expand_only_evaluated", cnt == self.k if self.name == "StoSOO" else cnt == 1,
                  "round %d: %s expanded after %d evaluation(s) (needs %s)" % (t, label(L), cnt, self.k))
        lv = leaves(self.part)
        for x in lv:
            if x is L:
                continue
            if (self.name == "DOO" or x.get_depth() <= h) and not self.hist(x):
                ctx.fail("rule:unevaluated_leaf_precedes", "round %d: %s expanded while leaf %s has not been evaluated" % (t, label(L), label(x)))
        vL = self.value(L)
        if vL is None:
            return
        for x in lv:
            if x is L or (self.name != "DOO" and x.get_depth() != h):
                continue
            vx = self.value(x)
            if vx is None:
                continue
            ctx.check("rule:best_of_depth", asb(ge(vL, vx)), "round %d: %s expanded although leaf %s has a higher value" % (t, label(L), label(x)))
            if self.name == "DOO":
                # the same comparison without tolerance, the diameter taken from the algorithm's own public delta(h): reward and
                # delta(h) are then exactly the numbers the code adds, so the two sums can be compared exactly (deep cells,
                # where delta(h) is far below the tolerance used above)
                eL = self.hist(L)[-1] + self.algo.delta(h)
                ex = self.hist(x)[-1] + self.algo.delta(x.get_depth())
                ctx.check("rule:best_b_exact", asb(eL >= ex), "round %d: %s expanded although reward + delta(depth) of leaf %s is higher" % (t, label(L), label(x)))
        if self.name in ("SOO", "StoSOO"):
            if self.sweep and self.sweep[-1][0] >= h:
                self.sweep = []  # a new sweep starts
            for (h2, v2) in self.sweep:
                ctx.check("rule:sweep_monotone", asb(ge(vL, v2)), "round %d: %s (depth %d) expanded with a value below that of the depth-%d leaf expanded earlier in the same sweep" % (t, label(L), h, h2))
            self.sweep.append((h, vL))
            if self.h_max is not None:
                ctx.check("rule:expand_within_cap", h <= self.h_max, "round %d: expansion at depth %d beyond the cap %s" % (t, h, self.h_max))

    def before_pull(self):
        self.sweep = []
        self.n_exp_in_pull = 0

    def after_pull(self, t, p):
        ctx = self.ctx
        self.rec.after_pull(t, p)
        self.led.after_pull(t, p)
        c = self.led.pending
        if c is None:
            ctx.fail("rule:point_not_a_representative", "round %d" % t)
            return
        cnt = len(self.hist(c))
        ctx.check("rule:handed_out_leaf", c.get_children() is None, "round %d: the evaluated cell %s is not a leaf" % (t, label(c)))
        if self.name in ("SOO", "DOO"):
            ctx.check("rule:evaluated_once", cnt == 0, "round %d: %s is evaluated a second time" % (t, label(c)))
            for x in leaves(self.part):
                if x.get_depth() < c.get_depth() and not self.hist(x):
                    ctx.fail("rule:not_first_unevaluated", "round %d: %s handed out although the shallower leaf %s is unevaluated" % (t, label(c), label(x)))
        else:
            ctx.check("rule:evaluated_at_most_k", cnt < self.k, "round %d: %s evaluated more than k=%s times" % (t, label(c), self.k))
            vc = self.value(c)
            for x in leaves(self.part):
                if x is not c and x.get_depth() == c.get_depth():
                    ctx.check("rule:handed_out_max_b", asb(ge(vc, self.value(x))), "round %d: %s handed out although leaf %s of the same depth has a higher b" % (t, label(c), label(x)))
        if self.h_max is not None:
            ctx.check("rule:evaluate_within_cap", c.get_depth() <= self.h_max, "round %d: evaluated %s deeper than the cap %s" % (t, label(c), self.h_max))
        if self.name == "DOO":
            ctx.check("rule:one_expansion_per_pull", self.n_exp_in_pull <= 1, "round %d: %d expansions in one pull" % (t, self.n_exp_in_pull))
        ctx.observe("p%d" % t, p)

    def after_reward(self, t, r):
        calls = [c for c in self.rec.calls_in(t, "reward")]
        if calls:
            self.ctx.fail("rule:expansion_in_pull", "round %d: expansion during receive_reward" % t)
        self.rec.after_reward(t, r)
        self.led.after_reward(t, r)
        self.round = t + 1
        self.before_pull()


def run(ctx, cfg):
    c = dict(cfg)
    pr = dict(c.get("params", {}))
    dom = None
    if cfg.get("prefix"):
        from harness.runlevel import initial_domain
        dom = initial_domain(ctx, cfg)
    if pr.pop("concrete_box", False):
        dom = [[0.0, 1.0] for _ in range(cfg["d"])]
    if pr.get("delta") == "user":
        pr["delta"] = lambda h: 0.5 ** h
    c["params"] = pr
    ob = Rule()
    ob_cfg = dict(cfg)
    ob_cfg["params"] = {k: v for k, v in cfg.get("params", {}).items() if k != "concrete_box"}
    from harness.runlevel import build
    if dom is None:
        dom = sym_box(ctx, cfg["d"])
    algo = build(ctx, c, dom)
    algo2, dom, rs, lp = drive(ctx, ob_cfg, [ob], dom=dom, algo=algo, last_point=False, stop_on_none=True)
    if cfg.get("twin") and len(rs) > 1:
        ctx.check_ge("twin", rs[0], rs[1], "reachability witness: deliberately false")
