"""C17 — synthetic objectives never exceed their declared maximum and attain it.

The real f() is executed on a symbolic point (and symbolic parameters / perturbation);
transcendental functions are uninterpreted with axioms instantiated for the occurring terms."""
import math

import numpy as np

from harness.common import mods
from sx import ufmodel
from sx.engine import Sym

PROPERTY = "C17"
LOGIC = None
TIMEOUT_MS = {"quick": 20000, "thorough": 60000}
ASSUMPTIONS = [
    "sin/cos/exp/log/log2/pow are uninterpreted functions constrained only by the axioms listed under coverage.extra.axioms (bounds, monotonicity, positivity, landmark values taken from the real NumPy functions); libm's conformance to these axioms is trusted",
    "sqrt is exact (y>=0, y*y=x), floor is exact (integer k<=x<k+1), abs is exact",
    "f is evaluated in exact real arithmetic: an overshoot of fmax at the level of one rounding error is not excluded by this model",
    "purity: same value twice at the same x with an unrelated evaluation in between, no random draw, no attribute change, argument untouched; a second independently constructed instance gives at x the value of a copy of it evaluated after the process-wide state of the PyXAB modules was put back to import time; f <= fmax also for an instance built after another one was evaluated at the same point (max2-*)",
    "existential clauses (fmax attained at the documented maximiser, Garland's maximum >= 0.997) are witnesses evaluated concretely on the real code",
]
EXTRA_EVIDENCE = {"axioms": sorted([
    "|sin| <= 1, |cos| <= 1", "exp > 0, monotone between occurring arguments and the landmarks -1, 0, 1 (values from np.exp)",
    "log defined for positive arguments, monotone, sign change at 1, landmark 1/e (value from np.log)", "pow(u, e) > 0 for u > 0; pow(1, e) = 1"])}

# name -> (module, class, ctor kwargs (symbolic ones marked), domain, documented dimension or None, maximiser)
OBJ = {
    "Garland": ("Garland", "Garland", {}, [(0, 1)], 1, None),
    "Perturbed_Garland": ("Garland", "Perturbed_Garland", {}, [(0, 1)], 1, None),
    "DoubleSine": ("DoubleSine", "DoubleSine", {"sym": True}, [(0, 1)], 1, "tmax"),
    "DoubleSine_default": ("DoubleSine", "DoubleSine", {}, [(0, 1)], 1, [0.5]),
    "Perturbed_DoubleSine": ("DoubleSine", "Perturbed_DoubleSine", {"sym": True}, [(0, 1)], 1, "tmax"),
    "DifficultFunc": ("DifficultFunc", "DifficultFunc", {}, [(0, 1)], 1, [0.5]),
    "Ackley": ("Ackley", "Ackley", {}, [(-1, 1), (-1, 1)], 2, [0.0, 0.0]),
    "Ackley_Normalized": ("Ackley", "Ackley_Normalized", {}, [(-1, 1), (-1, 1)], 2, [0.0, 0.0]),
    "Himmelblau": ("Himmelblau", "Himmelblau", {}, [(-5, 5), (-5, 5)], 2, [3.0, 2.0]),
    "Himmelblau_Normalized": ("Himmelblau", "Himmelblau_Normalized", {}, [(-5, 5), (-5, 5)], 2, [3.0, 2.0]),
    "Cexample": ("Cexample", "Cexample", {}, [(0, 1 / np.e)], 1, [0.0]),
}
for p in (1, 2, 3, 4):
    OBJ["Rastrigin_d%d" % p] = ("Rastrigin", "Rastrigin", {}, [(-1, 1)] * p, None, [0.0] * p)
    OBJ["Rastrigin_Normalized_d%d" % p] = ("Rastrigin", "Rastrigin_Normalized", {}, [(-1, 1)] * p, None, [0.0] * p)


def bounds(tier):
    return {"objectives": sorted(OBJ), "x": "every real point of the documented domain (solver variable)",
            "DoubleSine": "rho1, rho2 in [0.05,1] and tmax in [0,1] symbolic", "Rastrigin": "dimension 1..4",
            "perturbed variants": "offset is an arbitrary real (np.random.normal stub)",
            "outside": "IEEE rounding inside f; rho below 0.05"}


def configs(tier, seed):
    out = []
    for name in OBJ:
        out.append({"name": "max-" + name, "mode": "max", "obj": name, "cost": 5})
        out.append({"name": "pure-" + name, "mode": "pure", "obj": name})
        out.append({"name": "max2-" + name, "mode": "max", "second_instance": True, "obj": name, "cost": 5})
        out.append({"name": "dim-" + name, "mode": "dim", "obj": name})
        out.append({"name": "witness-" + name, "mode": "witness", "obj": name})
    out.append({"name": "twin-Ackley", "mode": "max", "obj": "Ackley", "twin": True, "expect_fail": "twin"})
    out.append({"name": "twin-DoubleSine", "mode": "max", "obj": "DoubleSine", "twin": True, "expect_fail": "twin"})
    return out


def setup(mods_):
    ufmodel.install()


def make(ctx, cfg, other_args=False):
    mod, cls, kw, dom, dim, maxi = OBJ[cfg["obj"]]
    kwargs = {}
    params = {}
    if other_args and not kw.get("sym"):
        # a second instance with OTHER constructor arguments where the class has any (every numeric default divided by 4):
        # state shared between instances and keyed by less than the arguments shows only then (seed S-C17-8)
        import inspect
        for nm, prm in inspect.signature(getattr(mods()[mod], cls).__init__).parameters.items():
            if nm != "self" and isinstance(prm.default, (int, float)) and not isinstance(prm.default, bool) and prm.default != 0:
                kwargs[nm] = prm.default / 4
    if kw.get("sym"):
        params["rho1"] = ctx.real("rho1", 0.05, 1)
        params["rho2"] = ctx.real("rho2", 0.05, 1)
        params["tmax"] = ctx.real("tmax", 0, 1)
        kwargs = dict(params)
    obj = ctx.call("init", getattr(mods()[mod], cls), **kwargs)
    return obj, dom, dim, maxi, params


def run(ctx, cfg):
    ctx.own_exceptions = True
    ufmodel.reset()
    mode = cfg["mode"]
    obj, dom, dim, maxi, params = make(ctx, cfg)
    if mode == "max":
        xs = [ctx.real("x%d" % i, lo, hi) for i, (lo, hi) in enumerate(dom)]
        if cfg.get("second_instance"):
            # an earlier instance (own parameters, own offset) was evaluated at the same point before this one was built
            ctx.call("f", obj.f, list(xs))
            obj, dom, dim, maxi, params = make(ctx, cfg)
        y = ctx.call("f", obj.f, xs)
        fin = ctx.is_finite_number(y)
        ctx.check("finite", fin, "f returned %r" % (y,))
        if fin:
            ctx.check_ge("f_le_fmax", obj.fmax, y, "f(x) exceeds the declared fmax")
            if cfg.get("twin"):
                ctx.check_ge("twin", obj.fmax - 100, y, "reachability witness: deliberately false (f >= fmax-100 everywhere)")
    elif mode == "pure":
        xs = [ctx.real("x%d" % i, lo, hi) for i, (lo, hi) in enumerate(dom)]
        xs_copy = list(xs)
        ys = [ctx.real("y%d" % i, lo, hi) for i, (lo, hi) in enumerate(dom)]
        n_in = len(ctx.rng_log) + (len(ctx.E.inputs) if ctx.symbolic else ctx.pos)
        before = dict(vars(obj))
        import copy as _copy
        twin_obj = _copy.deepcopy(obj)  # same parameters / perturbation, never called so far
        y1 = ctx.call("f", obj.f, xs)
        other = ctx.call("f", obj.f, ys)          # an unrelated evaluation in between
        y2 = ctx.call("f", obj.f, xs)
        fresh_other = ctx.call("f", twin_obj.f, ys)
        ctx.check_eq("pure_independent_of_call_history", other, fresh_other, "f(y) after f(x) differs from f(y) on a fresh copy of the objective")
        n_out = len(ctx.rng_log) + (len(ctx.E.inputs) if ctx.symbolic else ctx.pos)
        ctx.check("pure_same_value", ctx.same(y1, y2) if isinstance(y1, Sym) or isinstance(y2, Sym) else y1 == y2, "two evaluations at the same x differ")
        ctx.check_eq("pure_same_value_num", y1, y2)
        ctx.check("pure_no_random_draw", n_in == n_out, "f consumed a random draw / input")
        # a second, independently constructed instance evaluated at x after the first one was: the same value as a
        # copy of it evaluated with the process-wide state (module globals, class attributes) put back to import time
        from sx import shims as _shims
        objB = make(ctx, cfg, other_args=True)[0]
        objB_twin = _copy.deepcopy(objB)
        yB = ctx.call("f", objB.f, list(xs))
        _shims.restore_state()
        yB_fresh = ctx.call("f", objB_twin.f, list(xs))
        ctx.check_eq("pure_independent_of_other_instances", yB, yB_fresh, "f(x) of an instance depends on evaluations made by another instance")
        after = vars(obj)
        ctx.check("pure_no_state_change", set(before) == set(after) and all(before[k] is after[k] or (not isinstance(before[k], Sym) and before[k] == after[k]) for k in before),
                  "f modified the objective's attributes")
        ctx.check("pure_input_untouched", len(xs) == len(xs_copy) and all(a is b for a, b in zip(xs, xs_copy)), "f modified its argument")
    elif mode == "dim":
        for n in range(0, 5):
            xs = [0.25] * n
            raised = None
            try:
                obj.f(xs)
            except ValueError:
                raised = "ValueError"
            except Exception as ex:  # noqa
                raised = type(ex).__name__
            if dim is not None and n != dim:
                ctx.check("wrong_dimension_rejected", raised == "ValueError", "len(x)=%d accepted or failed with %s (documented dimension %d)" % (n, raised, dim))
            elif dim is not None:
                ctx.check("right_dimension_accepted", raised is None, "len(x)=%d raised %s" % (n, raised))
        ctx.count("sym:dim_enumerated")
    elif mode == "witness":
        if maxi is None:  # Garland: declared 1 overshoots the true maximum by < 0.003
            y = ctx.call("f", obj.f, [math.pi / 6])  # recorded maximiser: the cusp sin(60x)=0 nearest to 1/2
            ctx.check_ge("garland_overshoot_lt_0.003", y, obj.fmax - 0.003, "f(pi/6) = %r, fmax = %r" % (y, obj.fmax))
            ctx.check_ge("garland_le_fmax", obj.fmax, y)
        else:
            if maxi == "tmax":
                x = [params["tmax"]]
            else:
                x = list(maxi)
            y = ctx.call("f", obj.f, x)
            ctx.check_eq("fmax_attained", y, obj.fmax, "f(maximiser) = %r, fmax = %r" % (y, obj.fmax))


def refine_counterexample(cfg, cand):
    """the solver's counterexample lives in a model of the *axioms*, not of libm: look for a real
    witness on a grid of the domain (parameters kept at the solver's values)"""
    from fractions import Fraction
    import itertools
    dom = OBJ[cfg["obj"]][3]
    inputs = cand["inputs"]
    xi = [k for k, (name, kind, v) in enumerate(inputs) if name.startswith("x") and kind == "real"]
    if len(xi) != len(dom):
        return
    pgrid = {"rho1": [0.05, 0.1, 0.3, 0.5, 0.8, 1.0], "rho2": [0.05, 0.1, 0.3, 0.5, 0.8, 1.0], "tmax": [0.0, 0.2, 0.5, 0.8, 1.0]}
    pidx = [(k, name.split("!")[0]) for k, (name, kind, v) in enumerate(inputs) if kind == "real" and name.split("!")[0] in pgrid]
    n = {1: 4001 if not pidx else 201, 2: 81, 3: 21, 4: 11}[len(dom)]
    axes = [[lo + (hi - lo) * k / (n - 1) for k in range(n)] for lo, hi in dom]
    pvals = [[None]] if not pidx else list(itertools.product(*[pgrid[nm] for _, nm in pidx]))
    # first the solver's own parameter values, then the parameter grid
    count = 0
    for pv in [None] + (pvals if pidx else []):
        for pt in itertools.product(*axes):
            alt = [list(i) for i in inputs]
            for k, x in zip(xi, pt):
                f = Fraction(float(x))
                alt[k][2] = [str(f.numerator), str(f.denominator)]
            if pv is not None:
                for (k, nm), v in zip(pidx, pv):
                    f = Fraction(float(v))
                    alt[k][2] = [str(f.numerator), str(f.denominator)]
            yield alt
            count += 1
            if count > 60000:
                return
