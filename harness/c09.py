"""C09 — GPO / PCT / VPCT run the published schedule of base learners and validation."""
import math

from harness.common import mods
from harness.runlevel import build, params_of
from harness.stubs import make_stub
from harness.treeref import mean_of
from harness.ledger import same_term

PROPERTY = "C09"
ASSUMPTIONS = [
    "base learners are recording stubs (same __name__ as T_HOO / HCT / VHCT): the schedule of GPO is independent of what the learners propose",
    "mode 'sched': rewards are solver variables confined to disjoint per-phase bands (phase p: [p, p+1/2]) so that the final arg-max has a single feasible outcome and each (n, rhomax) is one symbolic path; the schedule itself does not depend on rewards; mode 'free': rewards unconstrained, small N, every outcome of the arg-max explored",
    "N = ceil(0.5*Dmax*ln((n/2)/ln(n/2))) and floor(n/2N) are recomputed by the harness; when the real expression is within 1e-9 of an integer both neighbours are accepted (DESIGN §5a.4)",
]


def schedule(n, rhomax):
    Dmax = math.log(2) / math.log(1 / rhomax)
    x = 0.5 * Dmax * math.log((n / 2) / math.log(n / 2))
    Ns = {math.ceil(x)}
    if abs(x - round(x)) < 1e-9 * max(1.0, abs(x)):
        Ns |= {round(x), round(x) + 1}
    return sorted(N for N in Ns if N >= 1)


def bounds(tier):
    q = 0 if tier == "quick" else 1
    return {"n": "every n in 100..300 (rhomax=0.9, GPO over T_HOO) and every 7th n for the other rhomax / wrappers" if q == 0 else "every n in 100..1000 (rhomax=0.9), every 7th n in 100..600 for the others",
            "rhomax": [0.3, 0.5, 0.7, 0.8, 0.9, 0.95], "numax": [1.0, 0.5], "wrappers": ["GPO(T_HOO)", "GPO(HCT)", "GPO(VHCT)", "PCT", "VPCT"],
            "construction-only sweep": "N and floor(n/2N) for every n in 100..3000, every 7th up to 20000 (thorough: every 101st up to 200000), rhomax in {0.3,...,0.99}", "free-reward runs": "n in {100, 101, 120}, rhomax in {0.5, 0.7, 0.8} (N <= 5)", "outside": "other budgets; rhomax so close to 1 that floor(n/2N) = 0"}


def configs(tier, seed):
    q = 0 if tier == "quick" else 1
    out = []
    top = 300 if q == 0 else 1000
    for n in range(100, top + 1):
        out.append({"name": "sched-GPO-T_HOO-n%d-rhomax0.9" % n, "algo": "GPO", "mode": "sched", "part": "B", "d": 1, "n": n, "params": {"rhomax": 0.9, "rounds": n, "base": "T_HOO"}, "cost": n / 100.0})
    top2 = 300 if q == 0 else 600
    for rm in (0.3, 0.5, 0.7, 0.8, 0.95):
        for n in range(100, top2 + 1, 7):
            out.append({"name": "sched-GPO-T_HOO-n%d-rhomax%s" % (n, rm), "algo": "GPO", "mode": "sched", "part": "B", "d": 1, "n": n, "params": {"rhomax": rm, "rounds": n, "base": "T_HOO"}, "cost": n / 100.0})
    for algo, base in (("GPO", "HCT"), ("GPO", "VHCT"), ("PCT", None), ("VPCT", None)):
        for rm in (0.5, 0.9):
            for n in range(100, top2 + 1, 29):
                pr = {"rhomax": rm, "rounds": n, "numax": 0.5}
                if base:
                    pr["base"] = base
                out.append({"name": "sched-%s-%s-n%d-rhomax%s" % (algo, base or "", n, rm), "algo": algo, "mode": "sched", "part": "B", "d": 1, "n": n, "params": pr, "cost": n / 100.0})
    for n in (100, 101, 120):
        for rm in (0.5, 0.7, 0.8):
            for algo in ("GPO", "PCT"):
                pr = {"rhomax": rm, "rounds": n}
                if algo == "GPO":
                    pr["base"] = "T_HOO"
                out.append({"name": "free-%s-n%d-rhomax%s" % (algo, n, rm), "algo": algo, "mode": "free", "part": "B", "d": 1, "n": n, "params": pr, "cost": 10})
    # construction only, wide range of budgets: N and floor(n/2N) as published (no rounds are played: the numbers that shape the
    # whole schedule are fixed by the constructor)
    for rm in (0.3, 0.5, 0.7, 0.8, 0.9, 0.95, 0.99):
        out.append({"name": "nsweep-GPO-rhomax%s-n100..%d" % (rm, 20000 if q == 0 else 200000), "algo": "GPO", "mode": "nsweep", "part": "B", "d": 1, "n": 100, "top": 20000 if q == 0 else 200000,
                    "params": {"rhomax": rm, "rounds": 100, "base": "T_HOO"}, "cost": 5})
    out.append({"name": "twin-GPO", "algo": "GPO", "mode": "free", "part": "B", "d": 1, "n": 100, "params": {"rhomax": 0.5, "rounds": 100, "base": "T_HOO"}, "twin": True, "expect_fail": "twin"})
    return out


def run_nsweep(ctx, cfg):
    from harness.runlevel import algo_class
    from harness.common import partition_class
    cls = algo_class("GPO")
    rm = cfg["params"]["rhomax"]
    Stub = make_stub("T_HOO", [])
    bad = []
    top = cfg["top"]
    n = 100
    while n <= top:
        a = cls(rounds=n, rhomax=rm, domain=[[0.0, 1.0]], partition=partition_class("B"), algo=Stub)
        Ns = schedule(n, rm)
        if not any(a.N == x for x in Ns):
            bad.append((n, "N", a.N, Ns))
        elif a.half_phase_length != n // (2 * int(a.N)):
            bad.append((n, "floor(n/2N)", a.half_phase_length, n // (2 * int(a.N))))
        n += 1 if n < 3000 else (7 if n < 20000 else 101)
    ctx.check("sched:N", not bad, "N / floor(n/2N) differ from the published values for budgets %s (n, which, got, expected)" % (bad[:5],))
    ctx.count("sym:nsweep")


def run(ctx, cfg):
    if cfg.get("mode") == "nsweep":
        return run_nsweep(ctx, cfg)
    name = cfg["algo"]
    p = params_of(cfg)
    n, rhomax, numax = p["rounds"], p["rhomax"], p["numax"]
    Ns = schedule(n, rhomax)
    learners = []
    dom = [[0.0, 1.0]]
    restore = None
    if name == "GPO":
        Stub = make_stub(p["base"], learners)
        algo = build(ctx, cfg, dom, base_cls=Stub)
        base_name = p["base"]
    else:
        m = mods()[name]
        base_name = "HCT" if name == "PCT" else "VHCT"
        Stub = make_stub(base_name, learners)
        restore = (m, base_name, getattr(m, base_name))
        setattr(m, base_name, Stub)
    try:
        if name != "GPO":
            algo = build(ctx, cfg, dom)
        inner = algo if name == "GPO" else algo.algorithm
        N = Ns[0]
        half = n // (2 * N)
        ctx.check("sched:N", any(inner.N == x for x in Ns), "N=%s, published ceil(0.5*Dmax*ln((n/2)/ln(n/2))) in %s" % (inner.N, Ns))
        if inner.N in Ns:
            N = int(inner.N)
            half = n // (2 * N)
        if half == 0:
            ctx.count("half_phase_zero_skipped")
            return
        T = 2 * N * half
        served = []
        for t in range(1, min(n, T + 3) + 1):
            before = [len(L.pulls) for L in learners]
            n_before = len(learners)
            pt = ctx.call("pull", algo.pull, t)
            ph = (t - 1) // (2 * half) + 1
            if cfg["mode"] == "sched" and t <= T:
                r = ctx.real("r%d" % t, ph, ph + 0.5)
            else:
                r = ctx.real("r%d" % t)
            got_before = [len(L.rewards) for L in learners]
            ctx.call("receive_reward", algo.receive_reward, t, r)
            pulled = [L for i, L in enumerate(learners) if len(L.pulls) > (before[i] if i < len(before) else 0)]
            credited = [L for i, L in enumerate(learners) if len(L.rewards) > (got_before[i] if i < len(got_before) else 0)]
            own = bool(pulled and credited and pulled[0] is credited[0] and same_term(credited[0].rewards[-1][2], r) and pulled[0].pulls[-1][2] is pt)
            served.append((t, pt, r, pulled, credited, len(learners) - n_before, own))
        # ---- the published schedule
        ctx.check("sched:number_of_learners", len(learners) == N, "%d learners constructed, N = %d" % (len(learners), N))
        rhos = []
        for i, L in enumerate(learners, start=1):
            want = rhomax ** (2 * N / (2 * i + 1))
            rho = L.kw.get("rho")
            ctx.check("sched:learner_rho", rho is not None and abs(rho - want) <= 1e-9, "learner %d: rho=%s, published rhomax^(2N/(2i+1)) = %s" % (i, rho, want))
            ctx.check("sched:learner_nu", L.kw.get("nu") == numax, "learner %d: nu=%s" % (i, L.kw.get("nu")))
            if base_name == "T_HOO":
                ctx.check("sched:learner_rounds", L.kw.get("rounds") == n, "learner %d: rounds=%s" % (i, L.kw.get("rounds")))
            from harness.common import partition_class
            ctx.check("sched:learner_domain_and_partition", L.kw.get("domain") is dom and L.kw.get("partition") is partition_class(cfg["part"]),
                      "learner %d was not constructed on the user's domain / partition class" % i)
            rhos.append(rho)
        ctx.check("sched:rhos_distinct", len(set(rhos)) == len(rhos), "learner parameters are not pairwise distinct")
        for (t, pt, r, pulled, credited, new, own) in served:
            if t > T:
                ctx.check("sched:after_end_no_learner", not pulled and not credited and new == 0, "round %d (after the last phase): a learner was used" % t)
                continue
            ph = (t - 1) // (2 * half) + 1
            k = (t - 1) % (2 * half)
            L = learners[ph - 1] if ph - 1 < len(learners) else None
            if k < half:
                ok = len(pulled) == 1 and pulled[0] is L and len(credited) == 1 and credited[0] is L
                ctx.check("sched:learner_round", ok, "round %d (phase %d, step %d): expected exactly learner %d to be pulled and credited; pulled %s credited %s" % (
                    t, ph, k, ph, [x.idx + 1 for x in pulled], [x.idx + 1 for x in credited]))
                if ok:
                    ctx.check("sched:own_reward", own, "round %d: the learner did not get the reward of its own proposal" % t)
                ctx.check("sched:created_at_phase_start", new == (1 if k == 0 else 0), "round %d: %d learner(s) created" % (t, new))
            else:
                ctx.check("sched:validation_round", not pulled and not credited and new == 0, "round %d (phase %d, validation %d): a learner was pulled/credited/created" % (t, ph, k - half))
                if L is not None and L.pulls:
                    ctx.check("sched:validates_last_proposal", pt is L.pulls[-1][2], "round %d: the validated point is not learner %d's last proposal" % (t, ph))
        for i, L in enumerate(learners, start=1):
            ctx.check("sched:learner_rounds_count", len(L.pulls) == half and len(L.rewards) == half, "learner %d: %d pulls, %d rewards, floor(n/2N) = %d" % (i, len(L.pulls), len(L.rewards), half))
        scores = []
        for ph in range(1, N + 1):
            vr = [r for (t, pt, r, pulled, credited, new, own) in served if t <= T and (t - 1) // (2 * half) + 1 == ph and (t - 1) % (2 * half) >= half]
            if len(vr) == half and ph - 1 < len(inner.V_reward):
                ctx.check_eq("sched:score_is_validation_mean", inner.V_reward[ph - 1], mean_of(vr), "phase %d" % ph)
                scores.append((mean_of(vr), learners[ph - 1].pulls[-1][2] if ph - 1 < len(learners) and learners[ph - 1].pulls else None))
        ctx.check("sched:one_score_per_phase", len(inner.V_reward) == N and len(inner.V_x) == N, "%d scores for %d phases" % (len(inner.V_reward), N))
        # ---- after the last phase
        ok, lp = ctx.soft_call(algo.get_last_point)
        ok2, pp = ctx.soft_call(algo.pull, n + 5)
        if ok and ok2 and len(scores) == N:
            ctx.check("sched:pull_after_end", pp is lp, "after the last phase pull() and get_last_point() differ")
            mine = [s for s, x in scores if x is lp]
            if not mine:
                ctx.fail("sched:recommends_validated_point", "the final recommendation is not one of the validated points")
            else:
                for s, x in scores:
                    if x is not lp:
                        ctx.check_ge("sched:best_score", mine[0], s, "a validated point with a higher score exists")
        if cfg.get("twin"):
            ctx.check_eq("twin", inner.V_reward[0], served[0][2], "reachability witness: deliberately false")
    finally:
        if restore:
            setattr(*restore)
