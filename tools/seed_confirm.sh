#!/bin/sh
# usage: tools/seed_confirm.sh <patch.diff> <demo.py>   — confirm a seeded change in a fresh scratch worktree
set -u
P=$(readlink -f "$1"); D=$(readlink -f "$2")
W=/tmp/confirm-wt-$$
git -C /repo worktree add -f --detach "$W" HEAD >/dev/null 2>&1 || { echo "worktree failed"; exit 2; }
cd "$W"
echo "== demo on unchanged code (want exit 0)"; PYTHONPATH="$W" PYTHONDONTWRITEBYTECODE=1 /venv/bin/python -W ignore "$D" >/tmp/confirm.$$.out 2>&1; echo "exit=$?"; tail -2 /tmp/confirm.$$.out
git apply "$P" || { echo "patch does not apply"; cd /; git -C /repo worktree remove --force "$W"; exit 2; }
echo "== demo with the change (want exit 1)"; PYTHONPATH="$W" PYTHONDONTWRITEBYTECODE=1 /venv/bin/python -W ignore "$D" >/tmp/confirm.$$.out 2>&1; echo "exit=$?"; tail -3 /tmp/confirm.$$.out
echo "== test suite with the change (want 124 passed)"; PYTHONPATH="$W" /venv/bin/python -m pytest -q -p no:cacheprovider PyXAB/tests 2>&1 | tail -1
cd /; git -C /repo worktree remove --force "$W"
