#!/bin/sh
# usage: tools/refactor_eval.sh <refactor-id> [<prop>...]     (default: all 17 properties, quick tier)
# A behaviour-preserving refactoring (refactors/<id>/patch.diff, written by an independent sub-agent, digests of
# its runs identical to the unchanged code) is applied to a scratch copy of /repo's working tree and every check is
# run against it through PYXAB_SRC: every check must exit 0 — anything else is a false alarm (exit 1) or a
# harness that depends on more than the property does (exit 2/3).  /repo is never touched.
set -u
ID=$1; shift
[ $# -eq 0 ] && set -- C01 C02 C03 C04 C05 C06 C07 C08 C09 C10 C11 C12 C13 C14 C15 C16 C17
cd /verif
W=/tmp/refsrc-$ID-$$
rm -rf "$W"; mkdir -p "$W"; cp -r /repo/PyXAB "$W/"; find "$W" -name __pycache__ -type d -prune -exec rm -rf {} + 2>/dev/null
patch -s -p1 -d "$W" < "/verif/refactors/$ID/patch.diff" || { echo "patch does not apply"; rm -rf "$W"; exit 2; }
bad=0
for P in "$@"; do
  PYXAB_SRC="$W" VERIF_EVID_DIR=/verif/evidence/_seed_runs timeout 1800 bin/check "$P" --tier "${TIER:-quick}" > "/tmp/ref-$ID-$P.log" 2>&1; rc=$?
  [ $rc -ne 0 ] && bad=1
  echo "refactoring $ID check $P -> exit $rc $( [ $rc -ne 0 ] && grep -m1 -A1 '^VIOLATION\|harness error\|inconclusive' /tmp/ref-$ID-$P.log | tr '\n' ' ' | cut -c1-300)"
done
rm -rf "$W"
exit $bad
