"""developer tool: single-process exploration of the configs of one harness whose name contains a pattern
usage: .venv/bin/python tools/probe.py <harness> <pattern> [maxpaths] [tier] [-v]"""
import sys, time, os
sys.path.insert(0, os.path.dirname(os.path.dirname(os.path.abspath(__file__))))
import warnings; warnings.simplefilter('ignore')
from sx import shims, engine as eng
from sx.ctx import SymCtx, PathEnd
import importlib, traceback
h = importlib.import_module('harness.'+sys.argv[1])
mods = shims.load_pyxab(); shims.install(mods)
if hasattr(h,'setup'): h.setup(mods)
from sx import ufmodel; ufmodel.install()
verbose = '-v' in sys.argv
args = [a for a in sys.argv if a != '-v']
tier = args[4] if len(args)>4 else 'quick'
E = eng.Engine(timeout_ms=getattr(h,'TIMEOUT_MS',{}).get(tier,5000), logic=getattr(h,'LOGIC',None)); eng.set_engine(E)
pat = args[2]; maxp = int(args[3]) if len(args)>3 else 100000
for cfg in h.configs(tier,0):
    if pat not in cfg['name']: continue
    fails = {}; unk=[0]
    def fn(E_):
        cx = SymCtx(E); shims.set_ctx(cx); shims.rng_fresh(); shims.restore_state(); ufmodel.reset()
        if verbose:
            orig = cx._exception
            def exc(label, ex, orig=orig): traceback.print_exc(); orig(label, ex)
            cx._exception = exc
        try: h.run(cx, cfg)
        except PathEnd: pass
        for c in cx.candidates:
            k=(c.label, (c.detail or '')[:160]); fails[k] = fails.get(k,0)+1
        unk[0]+=len(cx.unknown_checks)
    t=time.time(); q0=E.n_queries; n,_ = E.explore(fn, max_paths=maxp)
    print(cfg['name'], 'paths', n, 'q', E.n_queries-q0, 'unk', unk[0], 'wall %.1f'%(time.time()-t), fails if fails else '', flush=True)
