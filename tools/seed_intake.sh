#!/bin/sh
# usage: tools/seed_intake.sh <dir with patch.diff demo.py notes.md> <new-seed-id>
# confirms the change in a fresh scratch worktree (demo 0 without / 1 with, 124 tests pass) and, if confirmed,
# copies it to seeded/<id>/ (meta.json is written afterwards by tools/seed_meta.py)
set -u
SRC=$1; ID=$2
cd /verif
out=$(tools/seed_confirm.sh "$SRC/patch.diff" "$SRC/demo.py" 2>&1)
echo "$out"
a=$(echo "$out" | grep -A1 "unchanged code" | grep -c "exit=0")
b=$(echo "$out" | grep -A1 "with the change (want exit 1)" | grep -c "exit=1")
c=$(echo "$out" | grep -c "^124 passed")
if [ "$a" = 1 ] && [ "$b" = 1 ] && [ "$c" = 1 ]; then
  mkdir -p "seeded/$ID"; cp "$SRC/patch.diff" "$SRC/demo.py" "seeded/$ID/"; [ -f "$SRC/notes.md" ] && cp "$SRC/notes.md" "seeded/$ID/notes.md"
  echo "CONFIRMED $ID"
else
  echo "NOT CONFIRMED $ID (unchanged-ok=$a changed-fails=$b tests=$c)"
fi
