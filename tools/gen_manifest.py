"""writes /verif/MANIFEST.json from the table below (run after adding a harness)"""
import json, os, sys

HERE = os.path.dirname(os.path.dirname(os.path.abspath(__file__)))
TECH = "symbolic execution of the real PyXAB code on z3 proxy values (path exploration by re-execution); every assertion decided by an SMT validity query under the path condition; counterexamples replayed on the unshimmed code"
NOTE_COMMON = ("Trusted: z3 5.1.0; the proxy engine /verif/sx (its agreement with the unshimmed code is re-validated on sampled paths in every run: "
               "traces_validated_against_impl); NumPy RNG contracts; exact real arithmetic for symbolic values (IEEE rounding of symbolic arithmetic not modelled). "
               "Bounded: rounds, parameter grid, dimensions and arities as listed in the evidence file under coverage.bounds. ")

CHECKS = {
    "C01": ("Bounded symbolic model checking of the documented ask/tell loop for all 14 algorithms x 5 partition classes: box bounds, rewards and every RNG outcome are solver variables; on every path z3 proves each returned coordinate lies in [lo,hi]; exceptions, None/inf/NaN returns and watchdog expiry are replayed concretely before being reported. Mode B adds long runs: a concrete objective-like prefix of 3-300 rounds (concrete box and draws; also integer-typed rewards and integer box bounds) followed by 1-4 fully symbolic rounds for every algorithm, including non-default parameters and budgets.",
            "Histories are bounded by T rounds per algorithm (T in evidence); known findings (POO rhomax<0.832, VROOM non-binary, early get_last_point of GPO/StroquOOL) are listed in known_findings.json.", "§3 C01"),
    "C02": ("One-step symbolic check of make_children of all five partition classes on an arbitrary box (= arbitrary cell): arity, containment, chain of shared faces (same term = bit-identical), outer faces are the parent's own terms, equal sizes, centre representatives, parent box untouched; all split dimensions and all split draws of the closed interval. Leaves-tile-the-domain follows by induction on expansions (paper argument). Floating-point lemmas L-mid (binary16/32, thorough binary64) and L-kary (np.linspace, binary16 K=2,3; thorough K=4,5 and binary32) are proved by z3 over FloatingPoint terms obtained by running the real partition code on FP proxies; a refuted reduced-precision lemma is reported only with a binary64 box on which the unshimmed code fails the same obligation.",
            "K and d bounded as in evidence; floating-point rounding of the boundaries is the subject of the FP lemmas, not of this real-arithmetic run.", "§3 C02"),
    "C03": ("Three solver-driven parts on the real partition code: (1) make_children on a cell whose (depth, index) label is a pair of integer solver variables: z3 proves child j gets depth h+1 and index K(i-1)+j+1 and that children of cells i != i' have disjoint labels (all 5 classes, K 2..6, d 1..3); (2) every interleaving of deepen()/make_children(leaf) up to m operations with the structural invariant INV evaluated on the object graph after each; (3) INV, leaf-only expansion and the newlayer flag after every call of every algorithm under every reward history within the C01 bounds. Mode B configurations put INV on trees of 10-80 rounds.",
            "Part 2 is bounded-exhaustive enumeration of finite choices driven by the engine; uniqueness of labels for whole trees follows from part 1 by induction (paper argument).", "§3 C03"),
    "C17": ("The real f() of every synthetic objective is executed on a symbolic point of its documented domain (DoubleSine also with symbolic rho1, rho2, tmax; perturbed variants with a symbolic offset; Rastrigin in dimension 1..4); sin/cos/exp/log/pow are uninterpreted functions with bound/monotonicity/landmark axioms, sqrt/floor/abs exact; z3 proves f(x) <= fmax on every path, absence of domain errors and divisions by zero, purity (two evaluations give equal values, no random draw, no attribute write); existential clauses are witnesses evaluated on the real code; wrong dimensions enumerated (len 0..4). Purity also across call history (f(y) between two f(x); f(y) equals f(y) on a fresh copy).",
            "libm's conformance to the axioms is trusted; rounding inside f is not modelled; a solver counterexample that is spurious w.r.t. the abstraction is only reported after a concrete witness was found near it (otherwise exit 3).", "§3 C17"),
    "C04": ("Run-level symbolic exploration with a ledger kept by the harness (cell identified by object identity of the returned point): after every receive_reward every reachable cell's reward list must consist of exactly the identical reward terms the history credits it with (T-HOO: cell and ancestors; others: the cell; Zooming: the arm), counts equal list lengths, z3 proves mean = sum/len (VHCT: variance = max(population variance, 1e-3)), counts sum to the number of rounds, nothing holding evidence becomes unreachable; POO/GPO/PCT/VPCT through recording subclasses of the real learners (routing, score = mean, Times = count, validation score). Mode B configurations (concrete prefix + symbolic rounds) reach round-robin mode of POO, validation phases of GPO, exhaustion of SequOOL, cross-validation of StroquOOL.",
            "VROOM's crediting is checked in C13; GPO's long schedule in C09 with stub learners.", "§3 C04"),
    "C05": ("After every round of T-HOO/HCT/VHCT under every reward history (bounded) z3 proves: stored U of every cell = published formula recomputed from the ledger (admissible refresh epochs of delta~ at powers of two), stored B = U at leaves and min(U, max child B) elsewhere, unvisited cells infinite; at every pull the path from the root goes to a child whose B is >= every sibling's and stops at a leaf (T-HOO) / at the first leaf-or-below-threshold cell (HCT, VHCT thresholds re-derived from the ledger). Plus kernel lemmas: compute_u_value / compute_tau_hi_value of the three node classes with SYMBOLIC nu, rho, c, delta~, bound, rounds (sqrt exact, log uninterpreted), and Mode B runs with prefixes of 7-127 rounds so that refreshes at rounds 8..128 are met by symbolic rewards.",
            "Parameter grid in evidence; c1*delta <= 1/2; ties may be broken either way; epochs at power-of-two rounds admitted both ways (DESIGN §5a).", "§3 C05"),
    "C06": ("Same exploration with make_children wrapped per instance: per round at most one expansion, under the pulled cell, only of a leaf, in the reward phase, new cells with zero pulls and infinite U/B; T-HOO expands iff depth <= ceil((ln n/2 - ln(1/nu))/ln(1/rho)) and the tree never exceeds bound+1; HCT/VHCT expand iff leaf and T >= tau (both directions, thresholds from the reference; VHCT's variance-dependent threshold decided by z3 in QF_NRA). Grid includes negative, zero (ambiguous) and small truncation bounds; Mode B prefixes as in C05.",
            "For T-HOO and HCT thresholds and counts are concrete on a path, so the rule itself is evaluated concretely on each of the symbolically enumerated paths; the solver decides which paths exist.", "§3 C06"),
    "C07": ("Run-level symbolic exploration with a ledger of (point object, reward term): get_last_point() is queried after every round (DOO, SOO, SequOOL, StoSOO) or at the end (StroquOOL: after every round of the validation stage and at the end, whole runs for n=100/200 and Mode-B runs up to n=3000; POO/GPO/PCT/VPCT over recording stub learners for the whole budget); z3 proves under the path condition - which contains the comparisons made inside get_last_point - that the returned list is an evaluated point whose reward (StoSOO: recorded mean of a deepest-level cell; StroquOOL: validation mean; wrappers: learner score / validation mean recomputed by the harness) is >= that of every competitor. Rewards are unconstrained in sign.",
            "No tie-break is demanded. Wrapper scores are recomputed from delivered rewards; GPO's schedule (N, phase length) comes from the published formula.", "§3 C07"),
    "C08": ("Run-level symbolic exploration of SOO / StoSOO / DOO with make_children wrapped per instance and a hook that inspects the tree right before every expansion: only evaluated (StoSOO: k-times) leaves are expanded, no unevaluated leaf at a depth <= the expanded one (DOO: anywhere), the expanded leaf has the highest value of its depth (DOO: of all leaves; values recomputed from the ledger, validity under the path condition), sweeps monotone, caps respected, each cell evaluated at most once / k times, the cell handed out is an unevaluated leaf with no shallower unevaluated leaf (StoSOO: a max-b leaf of its depth with < k evaluations), DOO one expansion per pull.",
            "In this implementation a sweep never contains two expansions (the layer below an expansion always holds fresh leaves), so the sweep-monotonicity clause is vacuous on the current tree; DOO default delta on a concrete box.", "§3 C08"),
    "C11": ("Run-level symbolic exploration of Zooming on symbolic boxes, symbolic split draws and symbolic rewards: after every round z3 proves every active arm lies in its cell, the harness checks that the cells of the active arms are exactly the leaves of the partition (coverage), each pull returns an active arm whose index mean + 2 sqrt(8 phase/(2+pulls)) (reference phase clock, means from the ledger) is >= every other arm's, arm means/counts equal the history's, the cell is refined iff its radius <= nu rho^depth (both directions), and the other children receive fresh arms at their centres.",
            "Phase clock of the reference: phase i lasts 2^i rounds; ties either way.", "§3 C11"),
    "C12": ("Run-level symbolic exploration of SequOOL for n in 10..12 (thorough ..20) over the whole schedule plus post-schedule rounds: h_max re-derived in exact rationals; openings reconstructed from observables; root first, depth by depth, at most floor(h_max/h) openings per depth, never beyond h_max, each opened cell unopened and evaluated, z3 proves its reward >= every other unopened cell's of that depth, children evaluated exactly once and in order, no cell evaluated twice, post-schedule pulls return the domain centre and leave get_last_point unchanged. Plus h_max = floor(n/H_n) for every n in 10..400 (thorough ..3000) in exact rationals, and Mode B runs past exhaustion.",
            "Ties either way; bounded budgets.", "§3 C12"),
    "C13": ("Run-level symbolic exploration of VROOM with np.random.choice stubbed (records the weight vector, forks over every index with positive weight), descent signs forking and uniform draws symbolic: ranks per depth are a permutation of 1..2^h, z3 proves they are non-increasing in the reference lower-confidence value, the weight vector equals 1/(h*rank*C) in exact rationals and sums to one, the returned point lies in the drawn cell and in the sampled descendant (validity), the descent reaches the depth cap, and the reward is credited to exactly the drawn cell and the descendants on the sampled path.",
            "RNG conformance to the weight vector is NumPy's contract; binary-child partitions in d=1.", "§3 C13"),
    "C09": ("GPO/PCT/VPCT driven over recording stub learners for the whole budget with symbolic rewards: every n in 100..300 for rhomax=0.9 (thorough: ..1000) and a stride over the other rhomax / base learners; N and floor(n/2N) recomputed by the harness; asserts the number of learners, their (nu, rho_i) parameters and distinctness, creation exactly at phase starts, each learner pulled and credited for exactly floor(n/2N) rounds with the rewards of its own proposals, validation rounds touching no learner and re-serving the learner's last proposal, z3 proves each score equals the mean of exactly its validation rewards, and after the last phase pull and get_last_point return a validated point whose score is >= all others (free-reward runs explore every outcome of the arg-max).",
            "Stub learners; banded rewards in the sweep (schedule is reward independent); near-integer values of the N formula accept both neighbours.", "§3 C09"),
    "C10": ("POO driven over recording stub learners with symbolic rewards for 150 rounds (thorough 600) per rhomax in {0.84..0.99} and base name: after every round exactly one learner served the pull and exactly that learner received the reward, learners are only appended, each new learner has nu_max and a rho on the published grid inside (0, rho_max) distinct from all others, Times[i] equals the number of delivered rewards and z3 proves V_reward[i] equals their arithmetic mean; get_last_point - queried at the end of every run and after three consecutive rounds t-2, t-1, t for every t of a window - is the next proposal of a learner whose mean is >= every other's (all outcomes of every arg-max in the free-reward runs). Plus an inductive step: POO put into an abstract state (symbolic per-learner count m, cursor, counter, scores with V*count = S), one real pull+receive_reward, z3 proves routing, count+1, score*(count+1) = S + r, others untouched, n = count*N re-established; plus a sweep over declared budgets 12..130.",
            "Horizon bounded (the inductive step sketched in DESIGN is not discharged); stub learners.", "§3 C10"),
    "C14": ("Non-interference inside one symbolic path: (determinism) every algorithm is run twice with the same reward terms and the same recorded RNG draws while time/random/os/uuid/datetime/secrets (if imported by a PyXAB module) and the builtins id/hash return fresh arbitrary solver values in each run - z3 proves the two point sequences and recommendations equal; (isolation) two instances on two different symbolic boxes are run interleaved, every interleaving a free choice, and each must reproduce its solo sequence and stay in its own box; (inputs) the user's domain object is compared by identity and term identity before/after every run. Cell hashes are an environment as well (two concrete assignments for the two runs); 'reuse' mode: the same run before/after an instance with other constructor arguments lived in the process; reference runs start from the import-time module/class state; cross-class pairs whose integer arguments coincide with round numbers of the other instance; reversed-range and shared-domain inputs for the non-mutation clause.",
            "Hash-ordering of sets/dicts keyed by objects and C-level RNGs other than np.random.* cannot be made symbolic from outside the interpreter. Isolation on RNG-free partitions as the property states.", "§3 C14"),
    "C15": ("Product run inside one path with the same rewards and RNG draws: (time) rounds labelled 1..T vs arbitrary strictly increasing integer labels (solver variables, stronger than the offsets 0/1/17) for T-HOO, HCT, VHCT, Zooming, POO, GPO, PCT, VPCT, DOO, SOO, SequOOL, VROOM; (queries) 0/1/2 get_last_point() calls inserted before every pull (every combination) for T-HOO, HCT, VHCT, Zooming, POO; z3 proves all outputs equal. Mode B: concrete prefix, all labels of the second run symbolic, queries in the symbolic rounds.",
            "Bounded rounds; StoSOO and StroquOOL excluded by the property.", "§3 C15"),
    "C16": ("Product run inside one path: instance A on a symbolic box, instance B on its image under x -> a*x+b with b a solver variable and a in {1,2,1/4,3,1/1000}, same rewards, RNG draws of A replayed for B with uniform draws mapped through the same affine map; z3 proves every point of B and its recommendation is the affine image of A's, for all 14 algorithms and 5 partition classes (DOO default delta: translations only). d=2 for Binary/Kary as well; an exception raised only by the image run is a discrepancy.",
            "Real arithmetic; the bit-exact clause for power-of-two scalings is covered only by the FP midpoint lemma.", "§3 C16"),
}

NOT_YET = {}


def main():
    props = [json.loads(l) for l in open(os.path.join(HERE, "properties.jsonl"))]
    checks = []
    na = []
    for p in props:
        pid = p["id"]
        if pid in CHECKS:
            text, note, ref = CHECKS[pid]
            checks.append({
                "property_id": pid,
                "quick_cmd": "bin/check %s --tier quick" % pid,
                "thorough_cmd": "bin/check %s --tier thorough" % pid,
                "evidence_file": "/verif/evidence/%s.json" % pid,
                "replay_cmd_template": "bin/check %s --replay {path}" % pid,
                "engine": "sx",
                "level_claimed": {"category": "model_checking", "text": text, "design_ref": "DESIGN.md " + ref},
                "level_note": NOTE_COMMON + note,
                "technique": TECH,
            })
        else:
            na.append({"property_id": pid, "reason": NOT_YET.get(pid, "check not built yet in this session (work in progress; see DESIGN.md §3 for the planned solver-based harness)")})
    man = {
        "version": 1,
        "setup_cmd": "bin/setup.sh",
        "hooks": {"guard": "PYXAB_VERIF", "enable": "no source hooks: the checks import the real PyXAB modules from $PYXAB_SRC (default /repo) and replace module globals `math`/`np` at run time",
                  "baseline_off_cmd": "cd /repo && /venv/bin/python -m pytest -ra -q -p no:cacheprovider --timeout=900 --continue-on-collection-errors",
                  "source_commits": [], "add_only": True},
        "engines": [{"name": "sx", "path": "/verif/sx", "serves_properties": [c["property_id"] for c in checks],
                     "kind_free_text": "proxy-based symbolic executor for Python/NumPy code on z3 terms, DFS by re-execution, 16-way parallel, concrete replay of counterexamples"}],
        "checks": checks,
        "not_applicable": na,
        "notes": "Exit codes of every check: 0 held on everything explored, 1 replayed VIOLATION, 2 harness error, 3 inconclusive (counterexample did not reproduce / engine-vs-code disagreement). PYXAB_SRC selects the source tree (default /repo).",
    }
    json.dump(man, open(os.path.join(HERE, "MANIFEST.json"), "w"), indent=1)
    try:
        import jsonschema
        jsonschema.validate(man, json.load(open("/root/.vp/MANIFEST.schema.json")))
        print("MANIFEST.json valid; %d checks, %d not_applicable" % (len(checks), len(na)))
    except ImportError:
        print("written (jsonschema not available to validate)")


if __name__ == "__main__":
    main()
