#!/bin/sh
# regression test of the checks themselves: every seeded change must make the checks named in its
# meta.json (expected_exit_1_from) exit 1, and /repo must be clean afterwards.
# usage: tools/selftest.sh [seed-id ...]
cd /verif
IDS="$@"; [ -z "$IDS" ] && IDS=$(ls seeded)
fail=0
for ID in $IDS; do
  PROPS=$(/venv/bin/python -c "import json;print(' '.join(json.load(open('/verif/seeded/$ID/meta.json')).get('expected_exit_1_from',[])))")
  [ -z "$PROPS" ] && { echo "$ID: no expectation recorded"; continue; }
  out=$(tools/seed_eval.sh $ID $PROPS)
  echo "$out" | grep "^seed" | while read l; do echo "$l" | cut -c1-160; done
  echo "$out" | grep "^seed" | grep -v -- "-> exit 1" >/dev/null && { echo "SELFTEST MISS: $ID"; fail=1; }
done
git -C /repo status --short | grep . && echo "WARNING: /repo not clean"
echo "selftest finished"
