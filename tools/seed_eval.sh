#!/bin/sh
# usage: tools/seed_eval.sh <seed-id> <prop> [<prop>...]  — apply seeded/<id>/patch.diff to /repo, run the quick checks, undo
set -u
ID=$1; shift
cd /verif
git -C /repo diff --quiet || { echo "/repo has local changes"; exit 2; }
git -C /repo apply "/verif/seeded/$ID/patch.diff" || { echo "patch does not apply to /repo HEAD"; exit 2; }
for P in "$@"; do
  VERIF_EVID_DIR=/verif/evidence/_seed_runs timeout 1500 bin/check "$P" --tier "${TIER:-quick}" > "/tmp/seed-$ID-$P.log" 2>&1; rc=$?
  echo "seed $ID check $P -> exit $rc :: $(grep -c '^VIOLATION' /tmp/seed-$ID-$P.log) violation line(s); first: $(grep -A1 '^VIOLATION' /tmp/seed-$ID-$P.log | sed -n 2p | cut -c1-200)"
done
git -C /repo checkout -- .
git -C /repo status --short | head -3
