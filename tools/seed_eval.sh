#!/bin/sh
# usage: tools/seed_eval.sh <seed-id> <prop> [<prop>...]
# runs the quick (or $TIER) checks against a scratch copy of /repo's working tree with seeded/<id>/patch.diff applied
# (PYXAB_SRC points the checks at the copy, /repo itself is never touched, the copy is removed afterwards)
set -u
ID=$1; shift
cd /verif
W=/tmp/seedsrc-$ID-$$
rm -rf "$W"; mkdir -p "$W"; cp -r /repo/PyXAB "$W/"; find "$W" -name __pycache__ -type d -prune -exec rm -rf {} + 2>/dev/null
patch -s -p1 -d "$W" < "/verif/seeded/$ID/patch.diff" || { echo "patch does not apply"; rm -rf "$W"; exit 2; }
for P in "$@"; do
  PYXAB_SRC="$W" VERIF_EVID_DIR=/verif/evidence/_seed_runs timeout 1500 bin/check "$P" --tier "${TIER:-quick}" > "/tmp/seed-$ID-$P.log" 2>&1; rc=$?
  echo "seed $ID check $P -> exit $rc :: $(grep -c '^VIOLATION' /tmp/seed-$ID-$P.log) violation line(s); first: $(grep -A1 '^VIOLATION' /tmp/seed-$ID-$P.log | sed -n 2p | cut -c1-200)"
done
rm -rf "$W"
