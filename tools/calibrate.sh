#!/bin/sh
# usage: tools/calibrate.sh <harness> <tier> <cap_seconds>  — every config alone (single process) under a cap, 16 at a time
H=$1; TIER=${2:-thorough}; CAP=${3:-60}
cd /verif
.venv/bin/python -W ignore -c "
import sys; sys.path.insert(0,'.')
import importlib
h=importlib.import_module('harness.$H')
for c in h.configs('$TIER',0): print(c['name'])
" > /tmp/cal-$H.names
cat /tmp/cal-$H.names | xargs -P 16 -I{} sh -c "timeout $CAP .venv/bin/python tools/probe.py $H '{}' 10000000 $TIER 2>/dev/null | grep -F '{} paths' | head -1 || true; " > /tmp/cal-$H.out
echo "configs: $(wc -l < /tmp/cal-$H.names)  finished: $(wc -l < /tmp/cal-$H.out)  total cpu s: $(awk '{s+=$9} END {print s}' /tmp/cal-$H.out)"
echo "not finished within ${CAP}s:"; grep -v -x -F -f /dev/null /tmp/cal-$H.names | while read n; do grep -q -F "$n paths" /tmp/cal-$H.out || echo "  $n"; done | head -40
echo "heaviest:"; sort -k9 -n -r /tmp/cal-$H.out | awk '{print "  ",$1,$3,$9}' | head -12
