"""developer tool: validate EVERY path of the matching configs (symbolic model vs concrete replay)"""
import sys, time, os
sys.path.insert(0, os.path.dirname(os.path.dirname(os.path.abspath(__file__))))
import warnings; warnings.simplefilter('ignore')
from sx import shims, engine as eng, driver
from sx.ctx import SymCtx, PathEnd
import importlib
h = importlib.import_module('harness.'+sys.argv[1])
mods = shims.load_pyxab(); shims.install(mods)
if hasattr(h,'setup'): h.setup(mods)
E = eng.Engine(); eng.set_engine(E)
pat = sys.argv[2]
for cfg in h.configs('quick',0):
    if pat not in cfg['name']: continue
    stat = {'ok':0,'skip':0,'bad':0}
    def fn(E_):
        cx = SymCtx(E); shims.set_ctx(cx)
        try: h.run(cx, cfg)
        except PathEnd: pass
        if cx.candidates or cx.repeats: return
        m = cx._nice_model(strict_only=True)
        if m is None:
            stat['skip']+=1
            if stat['skip']<4: print('SKIP tie atom', str(getattr(cx,'tie_atom',None))[:300])
            return
        inputs = cx._inputs_from_model(m)
        res = driver.replay_concrete(h, cfg, inputs, complete=True)
        why=None
        if res['status']!='ok': why=res['status']+': '+res.get('why','')
        elif res['failures']: why='concrete fails %r'%(res['failures'][0][:2],)
        else: why=driver._observations_agree(E, cx.obs, res['observations'], m)
        shims.set_ctx(cx)
        if why:
            stat['bad']+=1
            if stat['bad']<=2:
                print("BAD", why, "tie_risk", getattr(cx,"tie_risk",None), "nstrong", len(cx._consistent_strengthening()), "tie_risk2", cx.tie_risk); print(" inputs", [(n, float(int(v[0])/int(v[1])) if isinstance(v,list) else v) for n,k,v in inputs])
                print(" pc", [str(c)[:100] for c in E.pc][:40])
        else: stat['ok']+=1
    E.explore(fn)
    print(cfg['name'], stat)
