"""developer tool: cross-check the solver verdicts the engine acts on.

usage: .venv/bin/python tools/solver_diff.py [C05 C11 ...]      (default: all 17, quick tier)

Runs each quick check once with VERIF_DUMP_QUERIES set, so that every k-th query of every worker (path
feasibility and validity queries alike) is written out as SMT-LIB2 together with the verdict of the z3
5.x library the engine uses; then decides every dumped formula again with
  * /usr/bin/z3   (4.8.12, the distribution's binary — a different code base by five years)
  * cvc5          (the binary on PATH)
and reports agreements, inconclusive answers and contradictions (sat vs unsat).  A contradiction is an
engine-level alarm (exit 1); timeouts / unknown are listed but are not contradictions.
Nothing is kept: the dump directory is removed at the end; the check's evidence goes to a scratch directory.
"""
import collections
import os
import re
import shutil
import subprocess
import sys
import tempfile
import concurrent.futures as cf

ROOT = os.path.dirname(os.path.dirname(os.path.abspath(__file__)))
LIMIT_S = int(os.environ.get("DIFF_LIMIT_S", "30"))


def run_solver(cmd, path):
    try:
        p = subprocess.run(cmd + [path], capture_output=True, text=True, timeout=LIMIT_S + 10)
    except subprocess.TimeoutExpired:
        return "timeout"
    out = p.stdout + p.stderr
    if "(error" in out:
        return "error"
    for line in p.stdout.splitlines():
        line = line.strip()
        if line in ("sat", "unsat", "unknown", "timeout"):
            return line
    return "error" if p.returncode else "unknown"


def one(path):
    exp = open(path).readline().split(":")[1].strip()
    body = open(path).read()
    if "(check-sat)" not in body:
        return path, exp, "error", "error"
    # cvc5 wants a logic; z3's printer emits none
    p5 = path + ".cvc5.smt2"
    with open(p5, "w") as f:
        f.write("(set-logic ALL)\n" + body)
    r_old = run_solver(["/usr/bin/z3", "-T:%d" % LIMIT_S], path)
    r_cvc = run_solver(["cvc5", "--tlimit=%d" % (LIMIT_S * 1000)], p5)
    return path, exp, r_old, r_cvc


def main():
    props = [a for a in sys.argv[1:] if re.fullmatch(r"C\d\d", a)] or ["C%02d" % i for i in range(1, 18)]
    total = collections.Counter()
    contradictions = []
    for prop in props:
        dump = tempfile.mkdtemp(prefix="qdump-%s-" % prop)
        evid = tempfile.mkdtemp(prefix="qevid-%s-" % prop)
        env = dict(os.environ, VERIF_DUMP_QUERIES=dump, VERIF_EVID_DIR=evid,
                   VERIF_DUMP_EVERY=os.environ.get("VERIF_DUMP_EVERY", "97"), VERIF_DUMP_MAX=os.environ.get("VERIF_DUMP_MAX", "12"))
        rc = subprocess.run([os.path.join(ROOT, "bin", "check"), prop, "--tier", "quick"], env=env, capture_output=True, text=True).returncode
        files = sorted(os.path.join(dump, f) for f in os.listdir(dump) if f.endswith(".smt2") and not f.endswith(".cvc5.smt2"))
        tally = collections.Counter()
        with cf.ThreadPoolExecutor(max_workers=int(os.environ.get("VERIF_NPROC", "16"))) as ex:
            for path, exp, r_old, r_cvc in ex.map(one, files):
                for who, r in (("z3-4.8.12", r_old), ("cvc5", r_cvc)):
                    if exp in ("sat", "unsat") and r in ("sat", "unsat"):
                        if r == exp:
                            tally[who + ":agree"] += 1
                        else:
                            tally[who + ":CONTRADICTS"] += 1
                            keep = os.path.join(ROOT, "evidence", "_solver_diff")
                            os.makedirs(keep, exist_ok=True)
                            shutil.copy(path, keep)
                            contradictions.append((prop, who, exp, r, os.path.join(keep, os.path.basename(path))))
                    else:
                        tally["%s:inconclusive(%s/%s)" % (who, exp, r)] += 1
        print("%s (check exit %d): %d queries re-decided: %s" % (prop, rc, len(files), dict(sorted(tally.items()))), flush=True)
        total.update(tally)
        shutil.rmtree(dump, ignore_errors=True)
        shutil.rmtree(evid, ignore_errors=True)
    print("TOTAL", dict(sorted(total.items())))
    for c in contradictions:
        print("CONTRADICTION property=%s solver=%s engine=%s other=%s file=%s" % c)
    sys.exit(1 if contradictions else 0)


if __name__ == "__main__":
    main()
