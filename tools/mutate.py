#!/usr/bin/env python3
"""Systematic mutation survey of the checks (developer tool, not a registered check).

Generates first-order mutants of the PyXAB sources (comparison / arithmetic / boolean operator swaps,
integer constant +-1, max<->min, dropped `not`, swapped np.maximum/np.minimum, inf sign), keeps those with
which the repository's own 124 tests still pass, runs the quick checks mapped to the mutated file against a
scratch copy (PYXAB_SRC), and records which mutants no check reports (exit 0 everywhere): these are either
equivalent mutants or gaps of the checks, to be triaged by hand.

usage: tools/mutate.py list                       -> number of mutation sites per file
       tools/mutate.py run <N> [--seed S] [--files substr,substr] [--jobs J] [--out file.jsonl]
Scratch copies live under /tmp/mut-<pid>-<k> and are removed as soon as a mutant is done.
"""
import ast, os, sys, random, json, shutil, subprocess, time, argparse, concurrent.futures as cf

REPO = os.environ.get("MUT_REPO", "/repo")
VERIF = os.path.dirname(os.path.dirname(os.path.abspath(__file__)))

FILE_PROPS = {
    "partition/BinaryPartition.py": ["C02", "C03", "C16"],
    "partition/RandomBinaryPartition.py": ["C02", "C03", "C16"],
    "partition/DimensionBinaryPartition.py": ["C02", "C03", "C16"],
    "partition/KaryPartition.py": ["C02", "C03", "C16"],
    "partition/RandomKaryPartition.py": ["C02", "C03", "C16"],
    "partition/Node.py": ["C02", "C03", "C01"],
    "partition/Partition.py": ["C03", "C02", "C01"],
    "algos/HOO.py": ["C05", "C06", "C04"],
    "algos/HCT.py": ["C05", "C06", "C04"],
    "algos/VHCT.py": ["C05", "C06", "C04"],
    "algos/SOO.py": ["C08", "C07", "C01"],
    "algos/StoSOO.py": ["C08", "C07", "C01"],
    "algos/DOO.py": ["C08", "C07", "C01"],
    "algos/SequOOL.py": ["C12", "C07", "C04"],
    "algos/StroquOOL.py": ["C07", "C01", "C03", "C04"],
    "algos/VROOM.py": ["C13", "C01", "C04"],
    "algos/Zooming.py": ["C11", "C04", "C01"],
    "algos/POO.py": ["C10", "C07", "C01"],
    "algos/GPO.py": ["C09", "C07", "C04", "C01"],
    "algos/PCT.py": ["C09", "C01"],
    "algos/VPCT.py": ["C09", "C01"],
    "synthetic_obj/Ackley.py": ["C17"], "synthetic_obj/Cexample.py": ["C17"],
    "synthetic_obj/DifficultFunc.py": ["C17"], "synthetic_obj/DoubleSine.py": ["C17"],
    "synthetic_obj/Garland.py": ["C17"], "synthetic_obj/Himmelblau.py": ["C17"],
    "synthetic_obj/Rastrigin.py": ["C17"],
}

CMP = {ast.Lt: "<=", ast.LtE: "<", ast.Gt: ">=", ast.GtE: ">", ast.Eq: "!=", ast.NotEq: "=="}
CMP_SRC = {ast.Lt: "<", ast.LtE: "<=", ast.Gt: ">", ast.GtE: ">=", ast.Eq: "==", ast.NotEq: "!="}
BIN = {ast.Add: "-", ast.Sub: "+", ast.Mult: "/", ast.Div: "*", ast.FloorDiv: "/", ast.Pow: "*"}
BIN_SRC = {ast.Add: "+", ast.Sub: "-", ast.Mult: "*", ast.Div: "/", ast.FloorDiv: "//", ast.Pow: "**"}
NAME_SWAP = {"maximum": "minimum", "minimum": "maximum", "max": "min", "min": "max", "argmax": "argmin",
             "ceil": "floor", "floor": "ceil", "append": "append"}


def sites(path):
    """list of (kind, lineno, col, old_text, new_text, descr) single-token replacements"""
    src = open(path).read()
    lines = src.split("\n")
    tree = ast.parse(src)
    out = []
    # mark docstring / raise-guard regions to skip string constants
    for node in ast.walk(tree):
        if isinstance(node, ast.Compare) and len(node.ops) == 1:
            op = node.ops[0]
            if type(op) in CMP:
                # locate operator text between left.end and comparator.start on the same line
                l, r = node.left, node.comparators[0]
                if l.end_lineno == r.lineno:
                    seg = lines[l.end_lineno - 1][l.end_col_offset:r.col_offset]
                    tok = CMP_SRC[type(op)]
                    k = seg.find(tok)
                    if k >= 0:
                        out.append(("cmp", l.end_lineno, l.end_col_offset + k, tok, CMP[type(op)]))
                        if type(op) in (ast.Lt, ast.LtE):
                            out.append(("cmpflip", l.end_lineno, l.end_col_offset + k, tok, ">" if tok == "<" else ">="))
                        if type(op) in (ast.Gt, ast.GtE):
                            out.append(("cmpflip", l.end_lineno, l.end_col_offset + k, tok, "<" if tok == ">" else "<="))
            elif isinstance(op, ast.Is) or isinstance(op, ast.IsNot):
                pass
        elif isinstance(node, ast.BinOp) and type(node.op) in BIN:
            l, r = node.left, node.right
            if l.end_lineno == r.lineno:
                seg = lines[l.end_lineno - 1][l.end_col_offset:r.col_offset]
                tok = BIN_SRC[type(node.op)]
                k = seg.find(tok)
                if k >= 0 and not isinstance(l, ast.Constant) or (k >= 0 and not isinstance(getattr(l, "value", None), str)):
                    if isinstance(l, ast.Constant) and isinstance(l.value, str):
                        continue
                    if isinstance(r, ast.Constant) and isinstance(r.value, str):
                        continue
                    out.append(("bin", l.end_lineno, l.end_col_offset + k, tok, BIN[type(node.op)]))
        elif isinstance(node, ast.AugAssign) and type(node.op) in (ast.Add, ast.Sub, ast.Mult, ast.Div):
            t, v = node.target, node.value
            if t.end_lineno == v.lineno:
                seg = lines[t.end_lineno - 1][t.end_col_offset:v.col_offset]
                tok = BIN_SRC[type(node.op)] + "="
                k = seg.find(tok)
                if k >= 0:
                    new = {"+=": "-=", "-=": "+=", "*=": "/=", "/=": "*="}[tok]
                    out.append(("aug", t.end_lineno, t.end_col_offset + k, tok, new))
                    out.append(("aug", t.end_lineno, t.end_col_offset + k, tok, "="))
        elif isinstance(node, ast.BoolOp):
            a, b = node.values[0], node.values[1]
            if a.end_lineno == b.lineno:
                seg = lines[a.end_lineno - 1][a.end_col_offset:b.col_offset]
                tok = "and" if isinstance(node.op, ast.And) else "or"
                k = seg.find(tok)
                if k >= 0:
                    out.append(("bool", a.end_lineno, a.end_col_offset + k, tok, "or" if tok == "and" else "and"))
        elif isinstance(node, ast.UnaryOp) and isinstance(node.op, ast.Not):
            seg = lines[node.lineno - 1][node.col_offset:node.col_offset + 4]
            if seg == "not ":
                out.append(("not", node.lineno, node.col_offset, "not ", ""))
        elif isinstance(node, ast.UnaryOp) and isinstance(node.op, ast.USub):
            if lines[node.lineno - 1][node.col_offset] == "-":
                out.append(("neg", node.lineno, node.col_offset, "-", ""))
        elif isinstance(node, ast.Constant) and isinstance(node.value, (int, float)) and not isinstance(node.value, bool):
            if node.lineno == node.end_lineno:
                old = lines[node.lineno - 1][node.col_offset:node.end_col_offset]
                if isinstance(node.value, int):
                    out.append(("const", node.lineno, node.col_offset, old, str(node.value + 1)))
                    out.append(("const", node.lineno, node.col_offset, old, str(node.value - 1)))
                else:
                    out.append(("const", node.lineno, node.col_offset, old, repr(node.value * 2)))
                    out.append(("const", node.lineno, node.col_offset, old, repr(node.value / 2)))
        elif isinstance(node, ast.Constant) and isinstance(node.value, bool):
            old = lines[node.lineno - 1][node.col_offset:node.end_col_offset]
            out.append(("boolconst", node.lineno, node.col_offset, old, str(not node.value)))
        elif isinstance(node, ast.Attribute) and node.attr in NAME_SWAP and NAME_SWAP[node.attr] != node.attr:
            if node.lineno == node.end_lineno:
                col = node.end_col_offset - len(node.attr)
                out.append(("name", node.lineno, col, node.attr, NAME_SWAP[node.attr]))
        elif isinstance(node, ast.Name) and node.id in ("max", "min"):
            out.append(("name", node.lineno, node.col_offset, node.id, NAME_SWAP[node.id]))
        elif isinstance(node, ast.Subscript) and isinstance(node.slice, ast.Constant) and isinstance(node.slice.value, int):
            pass  # covered by const
    # drop sites inside `raise`-guard messages / docstrings is automatic (strings are not touched)
    # de-duplicate
    seen, res = set(), []
    for s in out:
        if s not in seen:
            seen.add(s); res.append(s)
    return res


def all_sites(filt=None):
    res = []
    for rel in sorted(FILE_PROPS):
        if filt and not any(f in rel for f in filt):
            continue
        p = os.path.join(REPO, "PyXAB", rel)
        for s in sites(p):
            res.append((rel,) + s)
    return res


def apply(dst_root, rel, lineno, col, old, new):
    p = os.path.join(dst_root, "PyXAB", rel)
    lines = open(p).read().split("\n")
    ln = lines[lineno - 1]
    assert ln[col:col + len(old)] == old, (ln, col, old)
    lines[lineno - 1] = ln[:col] + new + ln[col + len(old):]
    open(p, "w").write("\n".join(lines))
    return ln.strip(), lines[lineno - 1].strip()


def run_one(k, site, tier, props_override=None, test_timeout=300, check_timeout=1500):
    rel, kind, lineno, col, old, new = site
    W = f"/tmp/mut-{os.getpid()}-{k}"
    shutil.rmtree(W, ignore_errors=True)
    os.makedirs(W)
    shutil.copytree(os.path.join(REPO, "PyXAB"), os.path.join(W, "PyXAB"), ignore=shutil.ignore_patterns("__pycache__"))
    rec = {"k": k, "file": rel, "kind": kind, "line": lineno, "col": col, "old": old, "new": new}
    try:
        before, after = apply(W, rel, lineno, col, old, new)
        rec["before"], rec["after"] = before, after
        try:
            compile(open(os.path.join(W, "PyXAB", rel)).read(), rel, "exec")
        except SyntaxError:
            rec["status"] = "syntax"; return rec
        env = dict(os.environ, PYTHONPATH=W, PYTHONDONTWRITEBYTECODE="1")
        try:
            t = subprocess.run(["/venv/bin/python", "-m", "pytest", "-q", "-x", "-p", "no:cacheprovider", "--timeout=120",
                                os.path.join(W, "PyXAB", "tests")], cwd=W, env=env, capture_output=True, text=True, timeout=test_timeout)
            tests_ok = t.returncode == 0
        except subprocess.TimeoutExpired:
            tests_ok = False
        if not tests_ok:
            rec["status"] = "killed_by_tests"; return rec
        rec["status"] = "survives_tests"
        rec["checks"] = {}
        for P in (props_override or FILE_PROPS[rel]):
            env2 = dict(os.environ, PYXAB_SRC=W, VERIF_EVID_DIR=f"/tmp/mut-evid-{os.getpid()}-{k}")
            t0 = time.time()
            try:
                c = subprocess.run([os.path.join(VERIF, "bin/check"), P, "--tier", tier], cwd=VERIF, env=env2,
                                   capture_output=True, text=True, timeout=check_timeout)
                rc = c.returncode
                first = ""
                ls = c.stdout.split("\n")
                for i, l in enumerate(ls):
                    if l.startswith("VIOLATION"):
                        first = (ls[i + 1] if i + 1 < len(ls) else "")[:200]; break
                if rc == 2 and not first:
                    first = (c.stdout + c.stderr)[-300:]
            except subprocess.TimeoutExpired:
                rc, first = 124, "timeout"
            rec["checks"][P] = {"rc": rc, "s": round(time.time() - t0), "first": first}
            if rc == 1:
                break
        rcs = [v["rc"] for v in rec["checks"].values()]
        rec["verdict"] = "detected" if 1 in rcs else ("harness_error" if any(r not in (0, 1) for r in rcs) else "undetected")
        return rec
    finally:
        shutil.rmtree(W, ignore_errors=True)
        shutil.rmtree(f"/tmp/mut-evid-{os.getpid()}-{k}", ignore_errors=True)


def main():
    ap = argparse.ArgumentParser()
    ap.add_argument("cmd")
    ap.add_argument("n", nargs="?", type=int, default=20)
    ap.add_argument("--seed", type=int, default=1)
    ap.add_argument("--files", default=None)
    ap.add_argument("--jobs", type=int, default=2)
    ap.add_argument("--tier", default="quick")
    ap.add_argument("--out", default="/tmp/mutation_survey.jsonl")
    a = ap.parse_args()
    filt = a.files.split(",") if a.files else None
    S = all_sites(filt)
    if a.cmd == "list":
        from collections import Counter
        c = Counter(s[0] for s in S)
        for f, n in sorted(c.items()):
            print(f"{n:5d} {f}")
        print(len(S), "sites")
        return
    rnd = random.Random(a.seed)
    rnd.shuffle(S)
    S = S[:a.n]
    with cf.ThreadPoolExecutor(a.jobs) as ex, open(a.out, "a") as out:
        futs = [ex.submit(run_one, k, s, a.tier) for k, s in enumerate(S)]
        for f in cf.as_completed(futs):
            r = f.result()
            out.write(json.dumps(r) + "\n"); out.flush()
            print(r.get("verdict", r["status"]), r["file"], r["line"], repr(r.get("before")), "->", repr(r.get("after")),
                  {p: v["rc"] for p, v in r.get("checks", {}).items()}, flush=True)


if __name__ == "__main__":
    main()
