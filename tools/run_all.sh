#!/bin/sh
# run every registered check of a tier on /repo, sequentially; prints one line per check
TIER=${1:-quick}
cd /verif
for P in C01 C02 C03 C04 C05 C06 C07 C08 C09 C10 C11 C12 C13 C14 C15 C16 C17; do
  s=$(date +%s)
  timeout ${2:-3000} bin/check $P --tier $TIER > /tmp/runall-$P.log 2>&1; rc=$?
  e=$(date +%s)
  echo "$P rc=$rc $((e-s))s :: $(grep "^$P $TIER" /tmp/runall-$P.log | cut -c1-220)"
done
