"""usage: seed_meta.py <seed-id> <property> "<what it needs to manifest>" "<detected by ...>" """
import json, sys, os
sid, prop, needs, det = sys.argv[1:5]
d = os.path.join("/verif/seeded", sid)
meta = {"id": sid, "breaks_property": prop, "needs_to_manifest": needs,
        "origin": "written by an independent sub-agent that saw only the property text and a scratch worktree of /repo",
        "confirmed": "tools/seed_confirm.sh: demo exits 0 on the unchanged tree, 1 with the patch; the 124 repository tests pass with the patch (fresh scratch worktree, removed afterwards)",
        "checks_run": "tools/seed_eval.sh %s ... (patch applied to /repo, quick checks run, patch undone)" % sid,
        "detected_by": det}
json.dump(meta, open(os.path.join(d, "meta.json"), "w"), indent=1)
print("wrote", d)
